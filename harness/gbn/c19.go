//go:build verif

package gbn

func vBytesEq(a, b []byte) bool {
	if len(a) != len(b) {
		return false
	}
	eq := true
	for i := range a {
		eq = eq && a[i] == b[i]
	}
	return eq
}

// vMsgEq: same dynamic type and equal fields.
func vMsgEq(a, b Message) bool {
	switch x := a.(type) {
	case *PacketData:
		y, ok := b.(*PacketData)
		return ok && x.Seq == y.Seq && x.FinalChunk == y.FinalChunk && x.IsPing == y.IsPing && vBytesEq(x.Payload, y.Payload)
	case *PacketACK:
		y, ok := b.(*PacketACK)
		return ok && x.Seq == y.Seq
	case *PacketNACK:
		y, ok := b.(*PacketNACK)
		return ok && x.Seq == y.Seq
	case *PacketSYN:
		y, ok := b.(*PacketSYN)
		return ok && x.N == y.N
	case *PacketFIN:
		_, ok := b.(*PacketFIN)
		return ok
	case *PacketSYNACK:
		_, ok := b.(*PacketSYNACK)
		return ok
	}
	return false
}

// VH_C19_GBN_RT: Deserialize(Serialize(m)) == m for the six packet types, all
// field values, payload length 0..maxlen with symbolic contents.
func VH_C19_GBN_RT() {
	var m Message
	switch vIntRange("type", 1, 6) {
	case SYN:
		m = &PacketSYN{N: vU8("n")}
	case DATA:
		n := vIntRange("plen", 0, vParam("maxlen", 8))
		m = &PacketData{Seq: vU8("seq"), FinalChunk: vBool("final"), IsPing: vBool("ping"), Payload: vBytes("p", n)}
	case ACK:
		m = &PacketACK{Seq: vU8("seq")}
	case NACK:
		m = &PacketNACK{Seq: vU8("seq")}
	case FIN:
		m = &PacketFIN{}
	case SYNACK:
		m = &PacketSYNACK{}
	}
	b, err := m.Serialize()
	vAssert(err == nil, "Serialize failed")
	vReach("roundtrip")
	m2, err := Deserialize(b)
	vAssert(err == nil, "own serialisation does not deserialise")
	if err == nil {
		vAssert(vMsgEq(m, m2), "Deserialize(Serialize(m)) != m")
	}
}

// VH_C19_GBN_Canon: any bytes that deserialise re-serialise to a packet that
// deserialises to the same value.
func VH_C19_GBN_Canon() {
	n := vIntRange("len", 0, vParam("maxlen", 8))
	b := vBytes("b", n)
	m, err := Deserialize(b)
	if err != nil {
		return
	}
	vReach("canon")
	b2, err := m.Serialize()
	vAssert(err == nil, "Serialize of a deserialised packet failed")
	m3, err := Deserialize(b2)
	vAssert(err == nil, "re-serialisation does not deserialise")
	if err == nil {
		vAssert(vMsgEq(m, m3), "re-serialised packet decodes to a different value")
	}
}

// VH_C19_GBN_Large: DATA packet round trip with a payload of symbolic length
// 0..65535 (contents: an uninterpreted stream compared at a symbolic index).
func VH_C19_GBN_Large() {
	l := vInt("plen")
	vAssume(l >= 0 && l <= 65535)
	p := vStream("p", l)
	m := &PacketData{Seq: vU8("seq"), FinalChunk: vBool("final"), IsPing: vBool("ping"), Payload: p}
	b, err := m.Serialize()
	vAssert(err == nil && len(b) == l+4, "Serialize failed or produced a wrong length")
	vReach("large-roundtrip")
	m2, err := Deserialize(b)
	vAssert(err == nil, "own serialisation does not deserialise")
	if err != nil {
		return
	}
	d, ok := m2.(*PacketData)
	vAssert(ok && d.Seq == m.Seq && d.FinalChunk == m.FinalChunk && d.IsPing == m.IsPing && len(d.Payload) == l, "header fields or payload length changed in the round trip")
	j := vInt("j")
	if ok && j >= 0 && j < l && j < len(d.Payload) {
		vAssert(d.Payload[j] == p[j], "payload bytes changed in the round trip")
	}
}
