//go:build verif

package gbn

import (
	"context"
	"sync"
	"time"
)

// vLink is one direction of the transport: a FIFO that may drop or duplicate
// (in place) each of its first `budget` packets once `armed`; later packets
// are delivered reliably. Latency is `lat` of virtual time per packet.
type vLink struct {
	mu     sync.Mutex // the transport functions are called from both loops and Close
	name   string
	ch     chan []byte
	armed  bool
	budget int
	lat    time.Duration
	sent   int
	// blackhole: drop everything
	dead   bool
	dups   int
	faulty int
	// hold: packets are kept back (not delivered) until released
	hold    bool
	held    [][]byte
	monitor func(b []byte)
	// dropFrom/dropTo: packets number dropFrom..dropTo-1 (counted from the
	// moment the link is armed) are dropped, whatever they are
	dropFrom, dropTo, armedSent int
	// ignoreCancel: the (never blocking) send function does not look at its
	// context, like the channel transports of the repository's own tests
	ignoreCancel bool
	// slowData: a DATA packet that is not a ping spends this long inside the
	// transport's send function (a slow, uninterruptible stream write)
	slowData time.Duration
	// delay fate (3): the packet, and with it everything behind it in this
	// direction (FIFO), reaches the receiver only delayDur later
	delayDur   time.Duration
	delayUntil time.Time
	dues       []time.Time
	fates      int // highest fate value offered (2: deliver/drop/duplicate, 3: + delay)
	// latFn: per-packet latency (argument: number of packets received so
	// far on this link), in addition to lat
	latFn func(i int) time.Duration
	recvd int
	// skip: once armed, this many packets pass untouched before the fault
	// budget starts (moves the fault window into the run: retransmissions,
	// acknowledgements of later packets, pings)
	skip int
	// stalled: the send function blocks (a stream write under flow control
	// that nobody drains) until the context it was given is cancelled
	stalled bool
	// linger: the send function returns only this long after the packet has
	// been handed over (a stream write that completes late: the answer may
	// be back before the writer goes on)
	linger time.Duration
	// ghost log of everything put on the wire (for monitors)
	wire [][]byte
}

func newLink(name string, budget int) *vLink {
	return &vLink{name: name, ch: make(chan []byte, 256), budget: budget, fates: 2, delayDur: 8 * time.Second}
}

// push hands a packet to the receiving side (caller holds l.mu or is the only
// user); it becomes visible to recv at its due time.
func (l *vLink) push(b []byte) {
	due := time.Now()
	if l.delayUntil.After(due) {
		due = l.delayUntil
	}
	l.dues = append(l.dues, due)
	l.ch <- b
}

func (l *vLink) send(ctx context.Context, b []byte) error {
	err := l.send1(ctx, b)
	l.mu.Lock()
	d := l.linger
	l.mu.Unlock()
	if d > 0 && err == nil {
		time.Sleep(d)
	}
	return err
}

func (l *vLink) send1(ctx context.Context, b []byte) error {
	if !l.ignoreCancel {
		select {
		case <-ctx.Done():
			return ctx.Err()
		default:
		}
	}
	l.mu.Lock()
	stalled := l.stalled
	l.mu.Unlock()
	if stalled {
		<-ctx.Done()
		return ctx.Err()
	}
	if l.slowData > 0 && len(b) >= 4 && b[0] == DATA && b[3] == FALSE {
		// a write that cannot be interrupted once it has started
		time.Sleep(l.slowData)
	}
	l.mu.Lock()
	defer l.mu.Unlock()
	l.sent++
	l.wire = append(l.wire, b)
	if l.monitor != nil {
		l.monitor(b)
	}
	if l.dead {
		return nil
	}
	if l.hold {
		l.held = append(l.held, b)
		return nil
	}
	fate := 0
	if l.armed {
		if l.armedSent >= l.dropFrom && l.armedSent < l.dropTo {
			l.armedSent++
			l.faulty++
			return nil
		}
		l.armedSent++
	}
	if l.armed && l.skip > 0 {
		l.skip--
	} else if l.armed && l.budget > 0 {
		l.budget--
		fate = vIntRange("fate_"+l.name, 0, l.fates)
	}
	switch fate {
	case 1: // drop
		l.faulty++
		return nil
	case 2: // duplicate in place
		l.dups++
		l.faulty++
		l.push(b)
	case 3: // delay (in order)
		l.faulty++
		l.delayUntil = time.Now().Add(l.delayDur)
	}
	l.push(b)
	return nil
}

// release delivers everything that was held back and stops holding.
func (l *vLink) release() {
	l.mu.Lock()
	defer l.mu.Unlock()
	l.hold = false
	for _, b := range l.held {
		l.push(b)
	}
	l.held = nil
}

func (l *vLink) recv(ctx context.Context) ([]byte, error) {
	select {
	case b := <-l.ch:
		l.mu.Lock()
		var due time.Time
		if len(l.dues) > 0 {
			due = l.dues[0]
			l.dues = l.dues[1:]
		}
		l.mu.Unlock()
		if d := time.Until(due); d > 0 {
			time.Sleep(d)
		}
		if l.lat > 0 {
			time.Sleep(l.lat)
		}
		if l.latFn != nil {
			l.mu.Lock()
			i := l.recvd
			l.recvd++
			l.mu.Unlock()
			if d := l.latFn(i); d > 0 {
				time.Sleep(d)
			}
		}
		return b, nil
	case <-ctx.Done():
		return nil, ctx.Err()
	}
}

type vPair struct {
	cli, srv *GoBackNConn
	c2s, s2c *vLink
	ctx      context.Context
	cancel   func()
	cliErr   error
	srvErr   error
}

// vConnect runs the real NewClientConn / NewServerConn against each other.
func vConnect(n uint8, budget int, opts ...TimeoutOptions) *vPair {
	p := &vPair{c2s: newLink("c2s", budget), s2c: newLink("s2c", budget)}
	p.ctx, p.cancel = context.WithCancel(context.Background())
	done := make(chan struct{}, 2)
	go func() {
		p.srv, p.srvErr = NewServerConn(p.ctx, p.s2c.send, p.c2s.recv, WithTimeoutOptions(opts...))
		done <- struct{}{}
	}()
	go func() {
		p.cli, p.cliErr = NewClientConn(p.ctx, n, p.c2s.send, p.s2c.recv, WithTimeoutOptions(opts...))
		done <- struct{}{}
	}()
	<-done
	<-done
	return p
}

// vConnectChunk: like vConnect, with a maximum chunk size (0 = none) on both
// parties.
func vConnectChunk(n uint8, budget, chunk int, opts ...TimeoutOptions) *vPair {
	p := &vPair{c2s: newLink("c2s", budget), s2c: newLink("s2c", budget)}
	p.ctx, p.cancel = context.WithCancel(context.Background())
	done := make(chan struct{}, 2)
	go func() {
		p.srv, p.srvErr = NewServerConn(p.ctx, p.s2c.send, p.c2s.recv, WithTimeoutOptions(opts...), WithMaxSendSize(chunk))
		done <- struct{}{}
	}()
	go func() {
		p.cli, p.cliErr = NewClientConn(p.ctx, n, p.c2s.send, p.s2c.recv, WithTimeoutOptions(opts...), WithMaxSendSize(chunk))
		done <- struct{}{}
	}()
	<-done
	<-done
	return p
}

func (p *vPair) arm() { p.c2s.armed, p.s2c.armed = true, true }

func (p *vPair) shutdown() {
	p.cancel()
	if p.cli != nil {
		p.cli.Close()
	}
	if p.srv != nil {
		p.srv.Close()
	}
}

// vPump sends msgs over from and collects what arrives at to; returns the
// received messages through the channel when `count` have arrived.
func vSender(c *GoBackNConn, msgs [][]byte, errs chan error) {
	for _, m := range msgs {
		// the application owns its buffer again once Send has returned: it
		// reuses it for the next message (here: overwrites it)
		buf := make([]byte, len(m))
		copy(buf, m)
		if err := c.Send(buf); err != nil {
			errs <- err
			return
		}
		for i := range buf {
			buf[i] ^= 0xff
		}
	}
	errs <- nil
}

func vReceiver(c *GoBackNConn, count int, got chan [][]byte) {
	var out [][]byte
	for len(out) < count {
		m, err := c.Recv()
		if err != nil {
			break
		}
		out = append(out, m)
	}
	// A slice returned by Recv belongs to the caller, spare capacity included
	// (append(m, ...) writes there): using it must not disturb any other
	// message that was handed out.
	for _, m := range out {
		full := m[:cap(m)]
		for i := len(m); i < len(full); i++ {
			full[i] = 0xee
		}
	}
	got <- out
}

// vIsPrefix: got is a prefix of want, message by message.
func vIsPrefix(got, want [][]byte) bool {
	if len(got) > len(want) {
		return false
	}
	ok := true
	for i := range got {
		ok = ok && vBytesEq(got[i], want[i])
	}
	return ok
}

func vMsgs(name string, k int) [][]byte {
	out := make([][]byte, k)
	for i := range out {
		out[i] = vBytes(name, 1)
	}
	return out
}

// VH_C01_Sim: bounded whole-endpoint run. Real client and server, both loops,
// real tickers/syncer/timeout manager on the virtual clock, traffic in both
// directions at once, symbolic payload bytes, a symbolic fate (deliver / drop /
// duplicate in place) for the first `faults` packets of each direction after a
// clean handshake. On each side the sequence of Recv results is a prefix of
// the peer's Sends, and within the horizon it is the whole sequence.
func VH_C01_Sim() {
	n := uint8(vIntRange("n", 1, vParam("maxn", 2)))
	k := vParam("msgs", 2)
	p := vConnect(n, vParam("faults", 1))
	vAssert(p.cliErr == nil && p.srvErr == nil, "clean handshake failed")
	if p.cliErr != nil || p.srvErr != nil {
		return
	}
	vAssert(p.srv.cfg.n == n && p.cli.cfg.n == n, "window sizes differ from the client's proposal")
	p.arm()
	up, down := vMsgs("up", k), vMsgs("down", k)
	errs := make(chan error, 2)
	gotS, gotC := make(chan [][]byte, 1), make(chan [][]byte, 1)
	go vSender(p.cli, up, errs)
	go vSender(p.srv, down, errs)
	go vReceiver(p.srv, k, gotS)
	go vReceiver(p.cli, k, gotC)
	horizon := time.After(time.Duration(vParam("horizon_s", 120)) * time.Second)
	var rs, rc [][]byte
	haveS, haveC := false, false
	for !(haveS && haveC) {
		select {
		case rs = <-gotS:
			haveS = true
		case rc = <-gotC:
			haveC = true
		case <-horizon:
			vReach("horizon")
			vAssert(false, "messages not delivered within the horizon although the transport became reliable (silent stall)")
			p.shutdown()
			return
		}
	}
	vReach("delivered")
	vAssert(vIsPrefix(rs, up) && len(rs) == k, "server did not receive exactly the client's messages in order")
	vAssert(vIsPrefix(rc, down) && len(rc) == k, "client did not receive exactly the server's messages in order")
	vAssert(<-errs == nil && <-errs == nil, "Send failed on an open connection")
	p.shutdown()
}

// VH_C01_SimWide: the whole-endpoint run of VH_C01_Sim over a wider scenario
// space: the fault window of each direction starts after a symbolic number of
// untouched packets (so that it also hits retransmissions, acknowledgements of
// later packets and pings), keep-alive on or off, static or adaptive timeouts,
// optional latency, two-byte messages sent whole or as two one-byte chunks, and
// a fourth packet fate: delay - the packet and everything behind it in that
// direction arrives 8 s late (longer than the resend timeouts and the 5 s / 7 s
// ping intervals), in order.
// The statement only asks for the prefix property here (progress is C06): a
// connection that keep-alive closed after losses may deliver less, never
// something else.
func VH_C01_SimWide() {
	n := uint8(vIntRange("n", 1, vParam("maxn", 3)))
	k := vParam("msgs", 2)
	opts, keepalive := vOpts(vIntRange("opts", 0, vParam("maxopts", 3)))
	chunk := vIntRange("chunk", vParam("minchunk", 0), 1)
	p := vConnectChunk(n, vParam("faults", 2), chunk, opts...)
	p.c2s.fates, p.s2c.fates = vParam("fates", 3), vParam("fates", 3)
	vAssert(p.cliErr == nil && p.srvErr == nil, "clean handshake failed")
	if p.cliErr != nil || p.srvErr != nil {
		return
	}
	lat := time.Duration(vIntRange("latency_ms", 0, vParam("maxlat", 0))) * 300 * time.Millisecond
	p.c2s.lat, p.s2c.lat = lat, lat
	p.c2s.skip = vIntRange("skip_c2s", 0, vParam("maxskip", 2))
	p.s2c.skip = vIntRange("skip_s2c", 0, vParam("maxskip", 2))
	p.arm()
	up, down := make([][]byte, k), make([][]byte, k)
	for i := 0; i < k; i++ {
		up[i], down[i] = vBytes("up", 2), vBytes("down", 2)
	}
	errs := make(chan error, 2)
	gotS, gotC := make(chan [][]byte, 1), make(chan [][]byte, 1)
	go vSender(p.cli, up, errs)
	go vSender(p.srv, down, errs)
	go vReceiver(p.srv, k, gotS)
	go vReceiver(p.cli, k, gotC)
	horizon := time.After(time.Duration(vParam("horizon_s", 600)) * time.Second)
	var rs, rc [][]byte
	for got := 0; got < 2; {
		select {
		case rs = <-gotS:
			got++
		case rc = <-gotC:
			got++
		case <-horizon:
			vReach("wide-horizon")
			vAssert(false, "messages not delivered within the horizon although the transport became reliable (silent stall)")
			p.shutdown()
			return
		}
	}
	vReach("wide-delivered")
	vAssert(vIsPrefix(rs, up), "server received something other than a prefix of the client's messages")
	vAssert(vIsPrefix(rc, down), "client received something other than a prefix of the server's messages")
	if len(rs) != k || len(rc) != k {
		vAssert(keepalive && p.c2s.faulty+p.s2c.faulty > 0, "connection closed although keep-alive is off or nothing was lost")
	}
	p.shutdown()
}
