//go:build verif

package gbn

import "time"

// vQueue builds a real queue (real constructor) for a symbolic window size
// n in [1,254] and overwrites base/top with arbitrary in-range values.
func vQueue() (*queue, uint8) {
	n := vU8("n")
	vAssume(n >= 1 && n <= 254)
	q := newQueue(&queueCfg{s: n + 1, sendPkt: func(*PacketData) error { return nil }}, NewTimeOutManager(nil))
	q.sequenceBase = vU8("base")
	q.sequenceTop = vU8("top")
	// window invariant Inv(q)
	vAssume(q.sequenceBase < q.cfg.s && q.sequenceTop < q.cfg.s)
	vAssume(q.size() <= n)
	return q, n
}

func vInv(q *queue, n uint8, what string) {
	vAssert(q.cfg.s == n+1, what+": s != n+1")
	vAssert(q.sequenceBase < q.cfg.s, what+": base left the sequence space")
	vAssert(q.sequenceTop < q.cfg.s, what+": top left the sequence space")
	vAssert(q.size() <= n, what+": more than N outstanding")
}

// refContains is the modular-interval reference for containsSequence.
func refContains(base, top, seq, s uint8) bool {
	d := func(a, b uint8) uint16 { // (a-b) mod s for a,b < s
		if a >= b {
			return uint16(a - b)
		}
		return uint16(a) + uint16(s) - uint16(b)
	}
	return seq < s && d(seq, base) < d(top, base)
}

// VH_C09_ACK: processACK preserves the window invariant for every ACK value
// 0..255 from every in-range (base, top), every window size.
func VH_C09_ACK() {
	q, n := vQueue()
	b0, t0 := q.sequenceBase, q.sequenceTop
	size0 := q.size()
	seq := vU8("seq")
	vReach("ack")
	ok := q.processACK(seq)
	vInv(q, n, "processACK")
	vAssert(q.sequenceTop == t0, "processACK moved top")
	vAssert(q.size() <= size0, "processACK grew the window")
	// the base moves exactly when seq acknowledges an outstanding packet
	in := refContains(b0, t0, seq, q.cfg.s)
	vAssert(ok == in, "processACK accepted an ACK outside the window / ignored one inside")
	if in {
		want := seq + 1
		if want == q.cfg.s {
			want = 0
		}
		vAssert(q.sequenceBase == want, "processACK: base is not seq+1 mod s")
	} else {
		vAssert(q.sequenceBase == b0, "processACK moved base on a foreign ACK")
	}
}

// VH_C09_NACK: same for processNACK, every NACK value 0..255.
func VH_C09_NACK() {
	q, n := vQueue()
	b0, t0 := q.sequenceBase, q.sequenceTop
	size0 := q.size()
	seq := vU8("seq")
	vReach("nack")
	q.processNACK(seq)
	vInv(q, n, "processNACK")
	vAssert(q.sequenceTop == t0, "processNACK moved top")
	vAssert(q.size() <= size0, "processNACK grew the window")
	in := refContains(b0, t0, seq, q.cfg.s) || seq == t0
	if in {
		vAssert(q.sequenceBase == seq, "processNACK: base is not the NACKed sequence")
	} else {
		vAssert(q.sequenceBase == b0, "processNACK moved base on a foreign NACK")
	}
}

// VH_C09_Add: addPacket from a non-full window keeps the invariant and grows
// the window by exactly one; the packet gets the old top as sequence number.
func VH_C09_Add() {
	q, n := vQueue()
	vAssume(q.size() < n)
	t0 := q.sequenceTop
	size0 := q.size()
	p := &PacketData{}
	vReach("add")
	q.addPacket(p)
	vInv(q, n, "addPacket")
	vAssert(p.Seq == t0, "addPacket: packet not labelled with old top")
	vAssert(q.size() == size0+1, "addPacket: size did not grow by one")
}

// VH_C09_Config: constructors give s = n+1 and a content array of s slots.
func VH_C09_Config() {
	n := vU8("n")
	vAssume(n >= 1 && n <= 254)
	cfg := newConfig(nil, nil, n)
	vReach("config")
	vAssert(cfg.s == cfg.n+1 && cfg.s > cfg.n, "newConfig: s is not n+1")
	g := &GoBackNConn{cfg: cfg, timeoutManager: NewTimeOutManager(nil)}
	m := vU8("m")
	vAssume(m >= 1 && m <= 254)
	g.setN(m)
	vAssert(g.cfg.n == m && g.cfg.s == m+1, "setN: s is not n+1")
	vAssert(g.sendQueue.cfg.s == m+1, "setN: queue s is not n+1")
	vAssert(len(g.sendQueue.content) == int(m)+1, "setN: content array is not s slots")
	vAssert(cap(g.recvDataChan) == int(m), "setN: receive buffer is not n slots")
}

// VH_C09_Block: the peer's acknowledgements are withheld. Exactly N Sends
// return without waiting for the peer, the N+1st blocks; when one
// acknowledgement-bearing batch is released it returns. At every packet put on
// the wire the window bookkeeping holds at most N outstanding packets.
func VH_C09_Block() {
	n := uint8([4]int{1, 2, 3, 20}[vIntRange("n_idx", 0, vParam("maxn_idx", 3))])
	opts := []TimeoutOptions{WithStaticResendTimeout(time.Second)}
	wait := 500 * time.Millisecond
	if vIntRange("keepalive", 0, 1) == 1 {
		// keep-alive on (ping after 1 s of silence, generous pong timeout):
		// the window stays full over several ping intervals; a ping must not
		// be squeezed into the full window, and Send N+1 must stay blocked
		opts = append(opts, WithKeepalivePing(time.Second, 40*time.Second))
		wait = 20 * time.Second // several resend-sync waits (3 x the resend timeout each) and ping intervals
	}
	p := vConnect(n, 0, opts...)
	vAssert(p.cliErr == nil && p.srvErr == nil, "clean handshake failed")
	if p.cliErr != nil || p.srvErr != nil {
		return
	}
	q := p.cli.sendQueue
	p.c2s.monitor = func(b []byte) {
		vAssert(q.size() <= n, "more than N packets outstanding when a packet is put on the wire")
		vAssert(q.sequenceBase < q.cfg.s && q.sequenceTop < q.cfg.s && q.cfg.s == n+1, "window bookkeeping left the sequence space")
	}
	p.s2c.hold = true // no ACK reaches the client
	returned := 0
	done := make(chan struct{}, 1)
	go func() {
		for i := 0; i < int(n)+1; i++ {
			if p.cli.Send([]byte{byte(i)}) != nil {
				break
			}
			returned++
		}
		done <- struct{}{}
	}()
	go func() {
		for {
			if _, err := p.srv.Recv(); err != nil {
				return
			}
		}
	}()
	if vIntRange("nack_base", 0, 1) == 1 {
		// the peer reports the first packet of the window missing (it was
		// lost, a later one arrived) and then stays silent: a NACK for the
		// base frees nothing, the resend it triggers is not acknowledged
		// either, and the window stays full
		time.Sleep(100 * time.Millisecond)
		nack, _ := (&PacketNACK{Seq: 0}).Serialize()
		p.s2c.mu.Lock()
		p.s2c.push(nack)
		p.s2c.mu.Unlock()
		if wait < 10*time.Second {
			wait = 10 * time.Second
		}
	}
	select {
	case <-done:
		vAssert(false, "Send number N+1 returned although no acknowledgement was received")
	case <-time.After(wait):
	}
	vReach("blocked")
	vAssert(returned == int(n), "Send did not accept exactly N messages without waiting for the peer")
	p.s2c.release()
	select {
	case <-done:
		vReach("unblocked")
		vAssert(returned == int(n)+1, "Send number N+1 failed after the acknowledgements arrived")
	case <-time.After(30 * time.Second):
		vAssert(false, "Send number N+1 still blocked after the acknowledgements were released")
	}
	p.shutdown()
}

// VH_C09_PingSlot: keep-alive on, the peer's answers withheld. After N-1
// Sends the connection stays silent until the keep-alive ping goes out: the
// ping is a DATA packet and takes the last slot of the window, so the next
// Send must block until an acknowledgement frees a slot (released answers),
// exactly as if user data had filled the window.
func VH_C09_PingSlot() {
	n := uint8([4]int{1, 2, 3, 20}[vIntRange("n_idx", 0, vParam("maxn_idx", 3))])
	p := vConnect(n, 0, WithStaticResendTimeout(time.Second), WithKeepalivePing(5*time.Second, 3*time.Second))
	vAssert(p.cliErr == nil && p.srvErr == nil, "clean handshake failed")
	if p.cliErr != nil || p.srvErr != nil {
		return
	}
	pings, datas := 0, 0
	p.c2s.monitor = func(b []byte) {
		if len(b) >= 4 && b[0] == DATA {
			if b[3] == TRUE {
				pings++
			} else {
				datas++
			}
		}
	}
	p.s2c.hold = true // no ACK and no pong reaches the client
	go func() {
		for {
			if _, err := p.srv.Recv(); err != nil {
				return
			}
		}
	}()
	for i := 0; i < int(n)-1; i++ {
		vAssert(p.cli.Send([]byte{byte(i)}) == nil, "one of the first N-1 Sends failed")
	}
	// wait for the ping (the send loop may be busy resending for a while)
	for i := 0; i < 200 && pings == 0; i++ {
		time.Sleep(50 * time.Millisecond)
	}
	if pings == 0 {
		// the connection gave up or never pinged within 10 s: not this
		// harness's subject (C13 covers keep-alive timing)
		vReach("no-ping")
		p.shutdown()
		return
	}
	done := make(chan error, 1)
	go func() { done <- p.cli.Send([]byte{0xee}) }()
	select {
	case <-done:
		vAssert(false, "Send returned although N packets (N-1 messages and the ping) are unacknowledged")
	case <-time.After(500 * time.Millisecond):
	}
	vReach("ping-blocked")
	p.s2c.release()
	select {
	case err := <-done:
		vReach("ping-unblocked")
		vAssert(err == nil, "blocked Send failed after the acknowledgements arrived")
	case <-time.After(30 * time.Second):
		vAssert(false, "Send still blocked after the acknowledgements were released")
	}
	p.shutdown()
}
