//go:build verif && !goexperiment.synctest

package gbn

func vQuiesce() {}
