//go:build verif

package gbn

// This harness calls an internal helper by its signature; it lives in its own
// file so that a change of that signature only takes this harness down
// (reported as not runnable), not the other harnesses of the package.

// VH_C09_Contains: containsSequence agrees with the modular-interval reference
// for all in-range base/top and every seq < s.
func VH_C09_Contains() {
	s := vU8("s")
	base, top, seq := vU8("base"), vU8("top"), vU8("seq")
	vAssume(s >= 2 && base < s && top < s)
	vReach("contains")
	vAssume(seq < s) // values >= s are rejected by the callers (VH_C09_ACK / VH_C09_NACK cover them)
	got := containsSequence(base, top, seq)
	vAssert(got == refContains(base, top, seq, s), "containsSequence disagrees with the modular interval")
}

