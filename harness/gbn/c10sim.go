//go:build verif

package gbn

import (
	"context"
	"time"
)

// VH_C10_Handshake: real NewClientConn || NewServerConn on the virtual clock.
// The first `faults` handshake packets of each direction get a symbolic fate
// (deliver / drop / duplicate), up to `maxstale` stale packets with symbolic
// bytes (every type and field value) sit in either direction before the start,
// and either side may start late. Afterwards the transport is reliable. As
// soon as its constructor returns, the client sends a request and waits for
// the reply; the server answers the request.
//
// Outcomes at the horizon:
//   - exchanged: request and reply delivered;
//   - failed visibly: every party that cannot proceed got an error from its
//     constructor or from Send/Recv;
//   - anything else (a party still blocked) is a silent hang.
//
// Required: never a hang, crash or foreign window; a fault-free attempt (no
// loss, duplicate or stale packet) must succeed. Keep-alive is enabled as in
// the deployed configuration (a peer whose FIN was lost is detected by it).
func VH_C10_Handshake() {
	n := uint8([4]int{1, 2, 20, 254}[vIntRange("n_idx", 0, 3)])
	p := &vPair{c2s: newLink("c2s", vParam("faults", 2)), s2c: newLink("s2c", vParam("faults", 2))}
	p.arm()
	p.ctx, p.cancel = context.WithCancel(context.Background())
	stale := vIntRange("stale", 0, vParam("maxstale", 1))
	// benign: every stale packet is a well-formed packet of a type the
	// handshake is specified to skip (ACK, NACK, FIN of an earlier connection)
	benign := true
	for i := 0; i < stale; i++ {
		b := vBytes("stale", vIntRange("stalelen", 0, vParam("maxstalelen", 3))) // incl. a zero-length relay message
		benign = benign && ((len(b) == 2 && (b[0] == ACK || b[0] == NACK)) || (len(b) == 1 && b[0] == FIN))
		if vBool("stale_to_server") {
			p.c2s.push(b)
		} else {
			p.s2c.push(b)
		}
	}
	order := vIntRange("start_order", 0, 2) // 0 together, 1 server late, 2 client late
	late := 1500 * time.Millisecond
	// 0 running, 1 exchanged, 2 failed visibly
	cliState, srvState := 0, 0
	done := make(chan struct{}, 2)
	go func() {
		defer func() { done <- struct{}{} }()
		if order == 1 {
			time.Sleep(late)
		}
		p.srv, p.srvErr = NewServerConn(p.ctx, p.s2c.send, p.c2s.recv, WithTimeoutOptions(WithKeepalivePing(5*time.Second, 3*time.Second)))
		if p.srvErr != nil || p.srv == nil {
			srvState = 2
			return
		}
		m, err := p.srv.Recv()
		if err != nil {
			srvState = 2
			return
		}
		vAssert(len(m) == 1 && m[0] == 1, "server received something else than the client's request")
		if p.srv.Send([]byte{2}) != nil {
			srvState = 2
			return
		}
		srvState = 1
	}()
	go func() {
		defer func() { done <- struct{}{} }()
		if order == 2 {
			time.Sleep(late)
		}
		p.cli, p.cliErr = NewClientConn(p.ctx, n, p.c2s.send, p.s2c.recv, WithTimeoutOptions(WithKeepalivePing(7*time.Second, 3*time.Second)))
		if p.cliErr != nil || p.cli == nil {
			cliState = 2
			return
		}
		if p.cli.Send([]byte{1}) != nil {
			cliState = 2
			return
		}
		m, err := p.cli.Recv()
		if err != nil {
			cliState = 2
			return
		}
		vAssert(len(m) == 1 && m[0] == 2, "client received something else than the server's reply")
		cliState = 1
	}()
	horizon := time.After(time.Duration(vParam("horizon_s", 120)) * time.Second)
	for returned := 0; returned < 2; {
		select {
		case <-done:
			returned++
		case <-horizon:
			returned = 2
		}
	}
	vReach("handshake-done")
	dups := p.c2s.dups+p.s2c.dups > 0
	// windows
	if p.srv != nil && p.srvErr == nil {
		vAssert(p.srv.cfg.n >= 1 && p.srv.cfg.n <= 254 && p.srv.cfg.s == p.srv.cfg.n+1, "server entered the data phase with an unrepresentable window")
		vAssert(p.srv.cfg.n == n, "server entered the data phase with a window the client did not propose")
	}
	if p.cli != nil && p.cliErr == nil {
		vAssert(p.cli.cfg.n == n, "client changed its window")
	}
	// no silent hang, except that a peer may wait for a party that failed on stale garbage
	if stale == 0 {
		vAssert(cliState != 0, "client still blocked at the horizon (silent hang)")
		vAssert(srvState != 0, "server still blocked at the horizon (silent hang)")
	}
	_ = dups
	if stale == 0 && p.c2s.faulty+p.s2c.faulty == 0 {
		vReach("fault-free")
		vAssert(cliState == 1 && srvState == 1, "a fault-free handshake attempt must succeed and data must flow")
	}
	if stale > 0 && benign && p.c2s.faulty+p.s2c.faulty == 0 {
		// the transport behaves and what is queued ahead of the handshake are
		// packets both handshakes skip: the attempt succeeds and data flows
		vReach("benign-stale")
		vAssert(cliState == 1 && srvState == 1, "stale ACK/NACK/FIN packets of an earlier connection, queued ahead of a loss-free handshake, made the attempt fail")
	}
	if cliState == 1 || srvState == 1 {
		vReach("exchanged")
	}
	if cliState == 1 {
		vAssert(srvState == 1, "client got a reply although the server did not complete")
	}
	p.shutdown()
}

// VH_C10_LateSYN: "delay ... with stale packets of an earlier connection still
// queued in the transport". Real client (window 20) and server; the first two
// packets of each direction are delivered, dropped, duplicated or delayed in
// order by 1.5 s (longer than the handshake timeout, so SYNs are re-sent and
// answers arrive late); optionally a SYN of an earlier connection carrying a
// different window (10) is still queued towards the server (ahead of this
// connection's packets: the transport keeps per-direction order).
// The server then streams 12 messages. At the horizon the two parties are not
// both alive in the data phase with different windows, and if both are alive
// the messages have been delivered - an attempt either converges on the
// client's window or fails visibly on the side that cannot proceed.
func VH_C10_LateSYN() {
	const n = 20
	p := &vPair{c2s: newLink("c2s", 2), s2c: newLink("s2c", 2)}
	p.c2s.fates, p.s2c.fates = 3, 3
	p.c2s.delayDur, p.s2c.delayDur = 1500*time.Millisecond, 1500*time.Millisecond
	p.arm()
	p.ctx, p.cancel = context.WithCancel(context.Background())
	// per-direction FIFO: a packet of an earlier connection can only sit ahead
	// of the packets of this one
	if vBool("stale_syn_queued") {
		b, _ := (&PacketSYN{N: 10}).Serialize()
		p.c2s.push(b)
	}
	const msgs = 12
	got := 0
	cliDone, srvDone := make(chan struct{}), make(chan struct{})
	go func() {
		defer close(srvDone)
		p.srv, p.srvErr = NewServerConn(p.ctx, p.s2c.send, p.c2s.recv, WithTimeoutOptions(WithKeepalivePing(5*time.Second, 3*time.Second)))
		if p.srvErr != nil || p.srv == nil {
			return
		}
		for i := 0; i < msgs; i++ {
			if p.srv.Send([]byte{byte(i)}) != nil {
				return
			}
		}
	}()
	go func() {
		defer close(cliDone)
		p.cli, p.cliErr = NewClientConn(p.ctx, n, p.c2s.send, p.s2c.recv, WithTimeoutOptions(WithKeepalivePing(7*time.Second, 3*time.Second)))
		if p.cliErr != nil || p.cli == nil {
			return
		}
		for got < msgs {
			m, err := p.cli.Recv()
			if err != nil {
				return
			}
			vAssert(len(m) == 1 && m[0] == byte(got), "client received something else than the server's next message")
			got++
		}
	}()
	time.Sleep(time.Duration(vParam("horizon_s", 90)) * time.Second)
	vReach("late-syn-horizon")
	alive := func(c *GoBackNConn) bool {
		if c == nil {
			return false
		}
		select {
		case <-c.quit:
			return false
		default:
			return true
		}
	}
	cliUp, srvUp := p.cliErr == nil && alive(p.cli), p.srvErr == nil && alive(p.srv)
	if cliUp && srvUp {
		vReach("late-syn-both-up")
		vAssert(p.srv.cfg.n == p.cli.cfg.n, "both parties are in the data phase, alive, with different window sizes")
		vAssert(got == msgs, "both parties are alive in the data phase but the server's messages are not delivered (silent stall)")
	}
	if cliUp {
		vAssert(p.cli.cfg.n == n, "client changed its window")
	}
	p.shutdown()
	<-cliDone
	<-srvDone
}
