//go:build verif && goexperiment.synctest

package gbn

import "testing/synctest"

// vQuiesce natively: wait until every goroutine of the bubble is durably blocked.
func vQuiesce() {
	if vSynctest {
		synctest.Wait()
	}
}
