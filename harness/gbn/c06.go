//go:build verif

package gbn

import "time"

// vOpts: timeout configuration case split: 0 adaptive defaults, 1 static 1s,
// 2 adaptive + keep-alive 5s/3s, 3 static 1s + keep-alive 7s/3s, 4 the
// configuration the mailbox layer deploys (resend multiplier 5, update
// frequency 200, handshake timeout 2 s - above the 1 s resend floor -,
// keep-alive 5s/3s, boost 50%).
func vOpts(idx int) ([]TimeoutOptions, bool) {
	switch idx {
	case 1:
		return []TimeoutOptions{WithStaticResendTimeout(time.Second)}, false
	case 2:
		return []TimeoutOptions{WithKeepalivePing(5*time.Second, 3*time.Second)}, true
	case 3:
		return []TimeoutOptions{WithStaticResendTimeout(time.Second), WithKeepalivePing(7*time.Second, 3*time.Second)}, true
	case 4:
		return []TimeoutOptions{WithResendMultiplier(5), WithTimeoutUpdateFrequency(200), WithHandshakeTimeout(2 * time.Second),
			WithKeepalivePing(5*time.Second, 3*time.Second), WithBoostPercent(0.5)}, true
	}
	return nil, false
}

func vIsData(b []byte) bool { return len(b) >= 4 && b[0] == DATA && b[3] == FALSE }

// VH_C06_Progress: finite fault prefix, then a reliable transport with latency
// below the resend timeout. Every accepted message is delivered within the
// horizon; nobody closes the connection; once everything is acknowledged no
// DATA packet is put on the wire any more.
func VH_C06_Progress() {
	n := uint8(vIntRange("n", 1, vParam("maxn", 2)))
	k := vParam("msgs", 2)
	optIdx := vIntRange("opts", 0, vParam("maxopts", 3))
	opts, keepalive := vOpts(optIdx)
	p := vConnect(n, vParam("faults", 2), opts...)
	vAssert(p.cliErr == nil && p.srvErr == nil, "clean handshake failed")
	if p.cliErr != nil || p.srvErr != nil {
		return
	}
	lat := time.Duration(vIntRange("latency_ms", 0, 1)) * 300 * time.Millisecond
	p.c2s.lat, p.s2c.lat = lat, lat
	p.arm()
	bidi := vBool("bidirectional")
	up := vMsgs("up", k)
	var down [][]byte
	if bidi {
		down = vMsgs("down", k)
	}
	errs := make(chan error, 2)
	gotS, gotC := make(chan [][]byte, 1), make(chan [][]byte, 1)
	go vSender(p.cli, up, errs)
	go vSender(p.srv, down, errs)
	go vReceiver(p.srv, len(up), gotS)
	go vReceiver(p.cli, len(down), gotC)
	horizon := time.After(time.Duration(vParam("horizon_s", 600)) * time.Second)
	var rs, rc [][]byte
	for got := 0; got < 2; {
		select {
		case rs = <-gotS:
			got++
		case rc = <-gotC:
			got++
		case <-horizon:
			vReach("horizon")
			vAssert(false, "accepted messages not delivered within the horizon after the transport became reliable (silent stall)")
			p.shutdown()
			return
		}
	}
	if len(rs) != len(up) || len(rc) != len(down) {
		// A Recv failed, i.e. the connection was closed. The statement allows
		// that only with keep-alive on (a ping or its answer can fall into the
		// fault prefix), and then the calls of both endpoints must fail
		// within a bounded time and what was delivered is still a prefix.
		vReach("closed")
		faulty := p.c2s.faulty+p.s2c.faulty > 0
		vAssert(keepalive, "connection closed although keep-alive is off")
		vAssert(faulty, "connection closed by keep-alive although no packet was lost or duplicated")
		vAssert(vIsPrefix(rs, up) && vIsPrefix(rc, down), "delivered messages are not a prefix of the sent ones")
		bound := time.After(60 * time.Second)
		for _, q := range []chan struct{}{p.cli.quit, p.srv.quit} {
			select {
			case <-q:
			case <-bound:
				vAssert(false, "one endpoint closed the connection, the other one is still open a minute later")
			}
		}
		vAssert(p.cli.Send([]byte{1}) != nil && p.srv.Send([]byte{1}) != nil, "Send succeeds on a closed connection")
		p.shutdown()
		return
	}
	vReach("delivered")
	vAssert(len(rs) == len(up) && vIsPrefix(rs, up), "server did not receive the client's messages")
	vAssert(len(rc) == len(down) && vIsPrefix(rc, down), "client did not receive the server's messages")
	vAssert(<-errs == nil && <-errs == nil, "Send failed although nobody closed the connection")
	// let the acknowledgements drain, then watch the wire
	time.Sleep(30 * time.Second)
	c0, s0 := len(p.c2s.wire), len(p.s2c.wire)
	time.Sleep(60 * time.Second)
	vReach("quiet")
	for _, b := range p.c2s.wire[c0:] {
		vAssert(!vIsData(b), "client keeps retransmitting data after everything was acknowledged")
	}
	for _, b := range p.s2c.wire[s0:] {
		vAssert(!vIsData(b), "server keeps retransmitting data after everything was acknowledged")
	}
	if !keepalive {
		vAssert(len(p.c2s.wire) == c0 && len(p.s2c.wire) == s0, "packets on the wire although idle and keep-alive is off")
	}
	// nobody closed
	select {
	case <-p.cli.quit:
		vAssert(false, "client closed the connection although the peer is alive")
	case <-p.srv.quit:
		vAssert(false, "server closed the connection although the peer is alive")
	default:
	}
	p.shutdown()
}

// VH_C06_TailBusy: the last packet of a burst is lost while the peer keeps
// streaming data at an interval below the resend timeout. The lost packet
// must be retransmitted and delivered within a bound that does not grow with
// the amount of peer traffic.
func VH_C06_TailBusy() {
	p := vConnect(uint8(vIntRange("n", 2, 3)), 0, WithStaticResendTimeout(time.Second))
	vAssert(p.cliErr == nil && p.srvErr == nil, "clean handshake failed")
	if p.cliErr != nil || p.srvErr != nil {
		return
	}
	m := vParam("peer_msgs", 40)
	gap := 500 * time.Millisecond
	// the client's single message is lost once
	p.c2s.armed, p.c2s.budget = true, 1
	msg := vBytes("x", 1)
	got := make(chan time.Duration, 1)
	start := time.Now()
	go func() {
		b, err := p.srv.Recv()
		if err == nil && vBytesEq(b, msg) {
			got <- time.Since(start)
		}
	}()
	go func() { // the client drains what the server streams
		for {
			if _, err := p.cli.Recv(); err != nil {
				return
			}
		}
	}()
	go func() { // the server streams
		for i := 0; i < m; i++ {
			if p.srv.Send([]byte{byte(i)}) != nil {
				return
			}
			time.Sleep(gap)
		}
	}()
	vAssert(p.cli.Send(msg) == nil, "Send failed")
	bound := time.Duration(vParam("bound_s", 6)) * time.Second
	select {
	case d := <-got:
		vReach("tail-delivered")
		vAssert(d <= bound, "tail-lost packet delivered only after the peer stopped streaming")
	case <-time.After(bound):
		vReach("tail-stalled")
		vAssert(false, "tail-lost packet not retransmitted while the peer keeps sending (data pending, acknowledgements flowing, nothing delivered)")
	}
	p.shutdown()
}

// VH_C06_AckLoss: a burst of m messages (m up to window+2, so that the
// sequence numbers wrap) is delivered, but a run of the receiver's answers -
// answers number from..to-1, symbolic - is lost; afterwards the transport is
// reliable. Every window size 1..maxn, static or adaptive timeout. All
// messages are delivered, and once everything is acknowledged the sender
// stops retransmitting (tail of the burst acknowledged only implicitly).
func VH_C06_AckLoss() {
	n := uint8(vIntRange("n", 1, vParam("maxn", 3)))
	var opts []TimeoutOptions
	if vBool("static") {
		opts = append(opts, WithStaticResendTimeout(time.Second))
	}
	p := vConnect(n, 0, opts...)
	vAssert(p.cliErr == nil && p.srvErr == nil, "clean handshake failed")
	if p.cliErr != nil || p.srvErr != nil {
		return
	}
	m := vIntRange("msgs", 1, int(n)+2)
	from := vIntRange("lost_from", 0, m-1)
	to := vIntRange("lost_to", from+1, m+vParam("extra_lost", 2))
	p.s2c.dropFrom, p.s2c.dropTo = from, to
	p.arm()
	up := vMsgs("up", m)
	errs := make(chan error, 1)
	gotS := make(chan [][]byte, 1)
	go vSender(p.cli, up, errs)
	go vReceiver(p.srv, m, gotS)
	select {
	case rs := <-gotS:
		vAssert(len(rs) == m && vIsPrefix(rs, up), "server did not receive the client's messages")
	case <-time.After(time.Duration(vParam("horizon_s", 300)) * time.Second):
		vAssert(false, "accepted messages not delivered after the acknowledgement losses ended")
		p.shutdown()
		return
	}
	select {
	case err := <-errs:
		vAssert(err == nil, "Send failed although nobody closed the connection")
	case <-time.After(time.Duration(vParam("horizon_s", 300)) * time.Second):
		vAssert(false, "Send still blocked long after everything was delivered (window never freed)")
		p.shutdown()
		return
	}
	vReach("ackloss-delivered")
	time.Sleep(60 * time.Second)
	c0 := len(p.c2s.wire)
	time.Sleep(120 * time.Second)
	vReach("ackloss-quiet")
	vAssert(len(p.c2s.wire) == c0, "sender keeps retransmitting although everything was delivered and the losses ended")
	vAssert(p.cli.sendQueue.size() == 0, "send queue not empty although everything was delivered and acknowledged")
	p.shutdown()
}

// VH_C06_SyncWake: the post-resend synchronisation can always be left again.
// The send goroutine resends a queue of two packets through a transport whose
// writes take 100 ms each (a blocking stream write) and then waits for the
// sync; the receive goroutine meanwhile processes two acknowledgement events
// (ACK of the last packet, NACK(top), ACK of the first packet, or nothing) at
// symbolic instants: during the first write, during the second write, right
// after the writes, after more than one resend timeout, or after the awaiting
// timeout. Whatever the order, resend() returns within the writes plus the
// awaiting timeout (3 x resend timeout) plus one resend timeout: a wake-up
// that is lost because it was sent before the waiter listened must be covered
// by the timeout, otherwise the send loop is stuck for good with both ends
// open (data pending, acknowledgements still exchanged, nothing delivered).
func VH_C06_SyncWake() {
	tm := NewTimeOutManager(nil, WithStaticResendTimeout(time.Second))
	q := newQueue(&queueCfg{s: 4, sendPkt: func(*PacketData) error {
		time.Sleep(100 * time.Millisecond)
		return nil
	}}, tm)
	q.addPacket(&PacketData{Payload: []byte{0}})
	q.addPacket(&PacketData{Payload: []byte{1}})
	at := [5]time.Duration{50 * time.Millisecond, 150 * time.Millisecond, 250 * time.Millisecond, 1300 * time.Millisecond, 3300 * time.Millisecond}
	ev := func(k int) {
		switch k {
		case 1:
			q.processACK(1) // the last queued packet: the expected ACK
		case 2:
			q.processNACK(2) // NACK(top): everything arrived
		case 3:
			q.processACK(0)
		}
	}
	e1, e2 := vIntRange("ev1", 0, 3), vIntRange("ev2", 0, 3)
	t1 := vIntRange("at1", 0, 4)
	t2 := vIntRange("at2", t1, 4)
	go func() {
		time.Sleep(at[t1])
		ev(e1)
		time.Sleep(at[t2] - at[t1])
		ev(e2)
	}()
	done := make(chan struct{})
	start := time.Now()
	go func() {
		_ = q.resend()
		close(done)
	}()
	select {
	case <-done:
		vReach("sync-left")
		vAssert(time.Since(start) <= 200*time.Millisecond+4*time.Second+100*time.Millisecond, "resend returned later than writes + awaiting timeout + one resend timeout")
		// NACK(top) says the peer has everything: when it is processed while
		// the send loop is already waiting for the sync (after the writes),
		// the wait ends there and then - the window is empty, a Send must not
		// stay blocked behind the rest of the awaiting timeout
		nackAt := -1
		if e1 == 2 && t1 >= 2 {
			nackAt = t1
		} else if e2 == 2 && t2 >= 2 && e1 != 2 {
			// (an earlier NACK(top) that came before the send loop listened
			// has already ended the sync for the syncer; the loop then sits
			// out its timeout - bounded, and not asserted against here)
			nackAt = t2
		}
		if nackAt >= 0 {
			vReach("sync-nack-top")
			vAssert(time.Since(start) <= at[nackAt]+150*time.Millisecond, "the sync wait went on after NACK(top) had been processed: the send loop stays blocked although nothing is outstanding")
		}
	case <-time.After(30 * time.Second):
		vReach("sync-stuck")
		vAssert(false, "the send loop is still waiting for the post-resend sync 30 s later: no timeout left to end it (silent stall)")
	}
	q.stop()
}
