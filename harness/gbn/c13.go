//go:build verif

package gbn

import (
	"context"
	"time"
)

func vKeepalive(idx int) (ping, pong time.Duration) {
	switch idx {
	case 1:
		return 7 * time.Second, 3 * time.Second
	case 2:
		return time.Second, time.Second
	case 3: // pong timeout longer than the ping interval
		return time.Second, 3 * time.Second
	}
	return 5 * time.Second, 3 * time.Second
}

// VH_C13_Blackhole: keep-alive enabled. The transport goes silent at a
// symbolic moment with q messages queued by the application (0 .. more than
// N). The endpoint must close the connection (its blocked and later calls
// fail) within ping + pong + resend slack.
func VH_C13_Blackhole() {
	n := uint8(vIntRange("n", 1, vParam("maxn", 2)))
	ping, pong := vKeepalive(vIntRange("keepalive", 0, vParam("maxka", 3)))
	p := vConnect(n, 0, WithKeepalivePing(ping, pong))
	vAssert(p.cliErr == nil && p.srvErr == nil, "clean handshake failed")
	if p.cliErr != nil || p.srvErr != nil {
		return
	}
	// some healthy traffic first
	warm := vIntRange("warmup_msgs", 0, 1)
	for i := 0; i < warm; i++ {
		vAssert(p.cli.Send([]byte{9}) == nil, "Send failed")
		m, err := p.srv.Recv()
		vAssert(err == nil && len(m) == 1, "Recv failed")
	}
	time.Sleep(time.Duration(vIntRange("idle_ms_x500", 0, 3)) * 500 * time.Millisecond)
	// the peer dies: nothing is delivered in either direction any more
	p.c2s.dead, p.s2c.dead = true, true
	death := time.Now()
	q := vIntRange("queued", 0, int(n)+1)
	sendErr := make(chan error, 1)
	go func() {
		var err error
		for i := 0; i < q && err == nil; i++ {
			err = p.cli.Send([]byte{byte(i)})
		}
		sendErr <- err
	}()
	closed := make(chan time.Duration, 1)
	go func() {
		<-p.cli.quit
		closed <- time.Since(death)
	}()
	// bound: one ping interval, the pong timeout, plus resend/sync slack
	bound := ping + pong + time.Duration(vParam("slack_s", 20))*time.Second
	select {
	case d := <-closed:
		vReach("dead-peer-detected")
		vAssert(d <= bound, "dead peer detected too late")
	case <-time.After(bound):
		vReach("dead-peer-missed")
		vAssert(false, "keep-alive did not close the connection although the peer stopped responding")
	}
	p.shutdown()
}

// VH_C13_Idle: a healthy idle pair (response latency below the pong timeout)
// is never closed by keep-alive, over ten virtual minutes.
func VH_C13_Idle() {
	n := uint8(vIntRange("n", 1, 2))
	ping, pong := vKeepalive(vIntRange("keepalive", 0, vParam("maxka", 3)))
	p := vConnect(n, 0, WithKeepalivePing(ping, pong))
	vAssert(p.cliErr == nil && p.srvErr == nil, "clean handshake failed")
	if p.cliErr != nil || p.srvErr != nil {
		return
	}
	lat := time.Duration(vIntRange("latency_pct", 0, 2)) * (pong * 45 / 100)
	p.c2s.lat, p.s2c.lat = lat, lat
	if lat == 0 && vBool("writes_return_late") {
		// the stream write of a packet returns only after the (prompt)
		// answer is already back
		p.c2s.mu.Lock()
		p.c2s.linger = 100 * time.Millisecond
		p.c2s.mu.Unlock()
		p.s2c.mu.Lock()
		p.s2c.linger = 100 * time.Millisecond
		p.s2c.mu.Unlock()
	}
	select {
	case <-p.cli.quit:
		vAssert(false, "keep-alive closed a healthy idle connection (client)")
	case <-p.srv.quit:
		vAssert(false, "keep-alive closed a healthy idle connection (server)")
	case <-time.After(10 * time.Minute):
		vReach("idle-ok")
	}
	// still usable
	vAssert(p.cli.Send([]byte{1}) == nil, "Send failed after idling")
	m, err := p.srv.Recv()
	vAssert(err == nil && len(m) == 1 && m[0] == 1, "message not delivered after idling")
	p.shutdown()
}

// VH_C13_IdleJitter: a live idle peer whose answers take a different time in
// every keep-alive cycle - almost nothing, a third of the pong timeout, or just
// under the pong timeout (symbolic choice per cycle for the first `cycles`
// cycles) - is never closed. Only the client pings (the server's keep-alive is
// off, so nothing but the answers to the client's pings shows liveness); the
// resend timeout is far above the latencies.
func VH_C13_IdleJitter() {
	ping, pong := vKeepalive(vIntRange("keepalive", 0, vParam("maxka", 3)))
	p := &vPair{c2s: newLink("c2s", 0), s2c: newLink("s2c", 0)}
	p.ctx, p.cancel = context.WithCancel(context.Background())
	done := make(chan struct{}, 2)
	go func() {
		p.srv, p.srvErr = NewServerConn(p.ctx, p.s2c.send, p.c2s.recv, WithTimeoutOptions(WithStaticResendTimeout(30*time.Second)))
		done <- struct{}{}
	}()
	go func() {
		p.cli, p.cliErr = NewClientConn(p.ctx, 2, p.c2s.send, p.s2c.recv, WithTimeoutOptions(WithStaticResendTimeout(30*time.Second), WithKeepalivePing(ping, pong)))
		done <- struct{}{}
	}()
	<-done
	<-done
	vAssert(p.cliErr == nil && p.srvErr == nil, "clean handshake failed")
	if p.cliErr != nil || p.srvErr != nil {
		return
	}
	cycles := vParam("cycles", 3)
	lats := make([]time.Duration, cycles)
	for i := range lats {
		switch vIntRange("latency", 0, 2) {
		case 0:
			lats[i] = pong / 50
		case 1:
			lats[i] = pong/3 + pong/150
		case 2:
			lats[i] = pong - pong/300
		}
	}
	p.s2c.latFn = func(i int) time.Duration {
		if i < len(lats) {
			return lats[i]
		}
		return pong / 50
	}
	select {
	case <-p.cli.quit:
		vAssert(false, "keep-alive closed an idle connection whose peer answered every ping within the pong timeout")
	case <-time.After(time.Duration(cycles+3) * (ping + pong)):
		vReach("jitter-ok")
	}
	vAssert(p.cli.Send([]byte{1}) == nil, "Send failed after idling")
	p.shutdown()
}
