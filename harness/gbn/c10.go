//go:build verif

package gbn

import (
	"context"
	"time"
)

// vScript is a transport whose receive side plays a list of packets and then
// blocks until the context is cancelled (like a silent relay).
type vScript struct {
	in    [][]byte
	out   [][]byte
	next  int
	pause time.Duration // a nil entry of `in` is a silence of this length
}

func (w *vScript) recv(ctx context.Context) ([]byte, error) {
	for w.next < len(w.in) {
		b := w.in[w.next]
		w.next++
		if b == nil {
			select {
			case <-time.After(w.pause):
				continue
			case <-ctx.Done():
				return nil, ctx.Err()
			}
		}
		return b, nil
	}
	<-ctx.Done()
	return nil, ctx.Err()
}

func (w *vScript) send(ctx context.Context, b []byte) error {
	w.out = append(w.out, b)
	return nil
}

// VH_C07_ServerSYN: the server handshake with every value of the SYN window
// field (0..255), followed by SYNACK and one DATA packet of the data phase.
// The server must either refuse/ignore the SYN or enter the data phase with
// s = n+1 > n >= 1; the first data packet must not crash it.
func VH_C07_ServerSYN() {
	nField := vU8("syn_n")
	syn, _ := (&PacketSYN{N: nField}).Serialize()
	synack, _ := (&PacketSYNACK{}).Serialize()
	data, _ := (&PacketData{Seq: 0, FinalChunk: true, Payload: []byte{0x2a}}).Serialize()
	w := &vScript{in: [][]byte{syn, synack, data}}
	ctx, cancel := context.WithCancel(context.Background())
	type res struct {
		c   *GoBackNConn
		err error
	}
	done := make(chan res, 1)
	go func() {
		c, err := NewServerConn(ctx, w.send, w.recv, WithTimeoutOptions(WithHandshakeTimeout(time.Second)))
		done <- res{c, err}
	}()
	var r res
	select {
	case r = <-done:
	case <-time.After(10 * time.Second):
		// the server keeps waiting for an acceptable SYN: that is "ignored"
		vReach("syn-ignored")
		cancel()
		return
	}
	if r.err != nil || r.c == nil {
		vReach("syn-refused")
		cancel()
		return
	}
	c := r.c
	vReach("data-phase")
	vAssert(c.cfg.n == nField, "server entered the data phase with a window the client did not propose")
	vAssert(c.cfg.n >= 1 && c.cfg.n <= 254, "server entered the data phase with a window size the protocol cannot represent")
	vAssert(c.cfg.s == c.cfg.n+1 && c.cfg.s > c.cfg.n, "sequence space is not strictly larger than the window")
	vAssert(len(c.sendQueue.content) == int(c.cfg.n)+1, "queue content array is not s slots")
	// let the data phase process the DATA packet
	c.SetRecvTimeout(5 * time.Second)
	m, err := c.Recv()
	vAssert(err == nil && len(m) == 1 && m[0] == 0x2a, "first data packet not delivered after the handshake")
	cancel()
	c.Close()
}

// VH_C10_ServerScript: the server handshake fed with a script of `steps`
// symbolic handshake-phase packets - each one a SYN with an arbitrary window
// byte, a SYNACK, a DATA packet, an ACK, or a pause longer than the handshake
// timeout (silence) - followed by a clean SYN(7), SYNACK and one DATA packet
// (once the transport behaves a handshake succeeds). Whatever the
// history (re-sent SYNs, SYNs of an earlier connection, invalid SYNs between
// valid ones, timeouts), a server that reaches the data phase uses a window
// that some SYN of the history proposed and that the protocol can represent,
// and the first DATA packet does not crash it.
func VH_C10_ServerScript() {
	steps := vParam("steps", 3)
	synack, _ := (&PacketSYNACK{}).Serialize()
	data, _ := (&PacketData{Seq: 0, FinalChunk: true, Payload: []byte{0x2a}}).Serialize()
	ack, _ := (&PacketACK{Seq: 0}).Serialize()
	w := &vScript{}
	var proposed []uint8
	for i := 0; i < steps; i++ {
		switch vIntRange("kind", 0, 4) {
		case 0:
			nField := vU8("syn_n")
			syn, _ := (&PacketSYN{N: nField}).Serialize()
			proposed = append(proposed, nField)
			w.in = append(w.in, syn)
		case 1:
			w.in = append(w.in, synack)
		case 2:
			w.in = append(w.in, data)
		case 3:
			w.in = append(w.in, ack)
		case 4:
			w.in = append(w.in, nil) // pause marker
		}
	}
	// then the transport behaves: a client's clean SYN, its SYNACK, data
	finalSyn, _ := (&PacketSYN{N: 7}).Serialize()
	proposed = append(proposed, 7)
	w.in = append(w.in, finalSyn, synack, data)
	w.pause = 2 * time.Second
	ctx, cancel := context.WithCancel(context.Background())
	type res struct {
		c   *GoBackNConn
		err error
	}
	done := make(chan res, 1)
	go func() {
		c, err := NewServerConn(ctx, w.send, w.recv, WithTimeoutOptions(WithHandshakeTimeout(time.Second)))
		done <- res{c, err}
	}()
	var r res
	select {
	case r = <-done:
	case <-time.After(30 * time.Second):
		vAssert(false, "the server did not complete a handshake although a clean SYN / SYNACK exchange followed the disturbed history (it no longer reads or answers)")
		cancel()
		return
	}
	if r.err != nil || r.c == nil {
		vReach("script-refused")
		cancel()
		return
	}
	c := r.c
	vReach("script-data-phase")
	vAssert(c.cfg.n >= 1 && c.cfg.n <= 254, "server entered the data phase with a window size the protocol cannot represent")
	vAssert(c.cfg.s == c.cfg.n+1 && c.cfg.s > c.cfg.n, "sequence space is not strictly larger than the window")
	vAssert(len(c.sendQueue.content) == int(c.cfg.s), "queue content array is not s slots")
	found := false
	for _, p := range proposed {
		found = found || p == c.cfg.n
	}
	vAssert(found, "server entered the data phase with a window no SYN proposed")
	// round-trip samples come only from packets that were not retransmitted:
	// a server that had to send its SYN more than once cannot tell which copy
	// the SYNACK answers and must not take a sample from it
	syns := 0
	for _, b := range w.out {
		if len(b) > 0 && b[0] == SYN {
			syns++
		}
	}
	if syns >= 2 {
		vReach("script-syn-resent")
		vAssert(!c.timeoutManager.hasSetDynamicTimeout, "the server took a round-trip sample from a handshake in which it had sent its SYN more than once")
	}
	// the data phase must survive what is left of the script
	c.SetRecvTimeout(5 * time.Second)
	_, _ = c.Recv()
	cancel()
	c.Close()
}

// VH_C10_ClientScript: the client handshake fed with a script of `steps`
// events - a silence longer than the handshake timeout (the client re-sends
// its SYN), a SYN proposing another window than the client's, an undecodable
// packet, or the proper SYN echo. The statement: an attempt that cannot
// proceed fails with an error on that side. So once the script contains a
// packet the client must reject (foreign window, junk), NewClientConn returns
// an error within a bounded time of receiving it - also when a timeout and a
// re-sent SYN preceded it. (A client that only sees silence keeps trying;
// that is waiting for a server, not a failure.)
func VH_C10_ClientScript() {
	steps := vParam("steps", 2)
	const n = 7
	good, _ := (&PacketSYN{N: n}).Serialize()
	foreign, _ := (&PacketSYN{N: n + 1}).Serialize()
	w := &vScript{pause: 2 * time.Second}
	fatal, silences, echoed := false, 0, false
	for i := 0; i < steps && !fatal && !echoed; i++ {
		switch vIntRange("kind", 0, 3) {
		case 0:
			w.in = append(w.in, nil)
			silences++
		case 1:
			w.in = append(w.in, foreign)
			fatal = true
		case 2:
			w.in = append(w.in, []byte{0xff})
			fatal = true
		case 3:
			w.in = append(w.in, good)
			echoed = true
		}
	}
	ctx, cancel := context.WithCancel(context.Background())
	type res struct {
		c   *GoBackNConn
		err error
	}
	done := make(chan res, 1)
	go func() {
		c, err := NewClientConn(ctx, n, w.send, w.recv, WithTimeoutOptions(WithHandshakeTimeout(time.Second)))
		done <- res{c, err}
	}()
	bound := time.Duration(silences)*4*time.Second + 10*time.Second
	select {
	case r := <-done:
		vReach("client-script-returned")
		if fatal {
			vAssert(r.err != nil, "the client completed a handshake although it received a packet it must reject")
		}
		if echoed {
			vAssert(r.err == nil && r.c != nil && r.c.cfg.n == n, "the client failed although the server echoed its SYN (after the timeouts of the script)")
		}
		if r.c != nil {
			r.c.Close()
		}
	case <-time.After(bound):
		vReach("client-script-waiting")
		vAssert(!fatal, "the client received a packet it must reject and neither completed nor failed: NewClientConn does not return its error")
		vAssert(!echoed, "the server echoed the client's SYN and the client still has not completed the handshake")
	}
	cancel()
}
