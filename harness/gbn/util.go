//go:build verif

package gbn

import (
	"math"
	"time"
)

// newNeverTicker: a ticker that never fires within any horizon.
func newNeverTicker() *time.Ticker { return time.NewTicker(math.MaxInt64) }
