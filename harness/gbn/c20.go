//go:build verif

package gbn

import "time"

const vMaxDur = int64(1) << 40 // ~18 minutes; larger values are outside the claim

// vTM builds a TimeoutManager with the real constructor and then overwrites
// its mutable fields with an arbitrary state satisfying the invariant
//
//	adaptive => resendTimeout >= 1s, booster.originalTimeout == resendTimeout,
//	0 <= boostCount <= 1024, 0 < boostPercent <= 1, lastBoost <= now,
//	multiplier in {1,2,5,16}, update frequency in {1,2,100}, counter in [0,freq).
//
// The clock is symbolic (vAdvance); every time stamp in the state was taken
// from time.Now() at an earlier symbolic instant.
func vTM(static bool) *TimeoutManager {
	var m *TimeoutManager
	if static {
		rt := vI64("static_timeout")
		vAssume(rt > 0 && rt <= vMaxDur)
		m = NewTimeOutManager(nil, WithStaticResendTimeout(time.Duration(rt)))
	} else {
		m = NewTimeOutManager(nil)
	}
	vAdv("t_boot")
	if !static {
		rt := vI64("resend_timeout")
		vAssume(rt >= int64(time.Second) && rt <= vMaxDur)
		m.resendTimeout = time.Duration(rt)
		m.resendBooster.originalTimeout = time.Duration(rt)
		mult := [4]int{1, 2, 5, 16}[vIntRange("mult_idx", 0, 3)]
		freq := [3]int{1, 2, 100}[vIntRange("freq_idx", 0, 2)]
		WithResendMultiplier(mult)(m)
		WithTimeoutUpdateFrequency(freq)(m)
		rc := vInt("resp_counter")
		vAssume(rc >= 0 && rc < freq)
		m.responseCounter = rc
		m.hasSetDynamicTimeout = vBool("has_dyn")
	}
	bc := vInt("boost_count")
	vAssume(bc >= 0 && bc <= 1024)
	m.resendBooster.boostCount = bc
	pct := vF32("boost_pct")
	vAssume(pct > 0 && pct <= 1)
	m.resendBooster.boostPercent = pct
	if vBool("boosted_before") {
		m.resendBooster.lastBoost = time.Now()
	}
	vAdv("t_a")
	if vBool("syn_pending") {
		m.latestSentSYNTime = time.Now()
	}
	vAdv("t_b")
	if vBool("has_sent") {
		m.sentTimes[vU8("sent_seq")] = time.Now()
	}
	d := vI64("t_c")
	vAssume(d <= vMaxDur)
	vAdvance(time.Duration(d))
	return m
}

// vAdv advances the symbolic clock by an arbitrary duration in [0, vMaxDur].
func vAdv(name string) {
	d := vI64(name)
	vAssume(d >= 0 && d <= vMaxDur)
	vAdvance(time.Duration(d))
}

func vMsg() Message {
	switch vIntRange("msg_type", 1, 6) {
	case SYN:
		return &PacketSYN{N: vU8("msg_n")}
	case DATA:
		return &PacketData{Seq: vU8("msg_seq"), IsPing: vBool("msg_ping")}
	case ACK:
		return &PacketACK{Seq: vU8("msg_seq")}
	case NACK:
		return &PacketNACK{Seq: vU8("msg_seq")}
	case FIN:
		return &PacketFIN{}
	}
	return &PacketSYNACK{}
}

// VH_C20_Step: one Sent or Received event from an arbitrary valid adaptive
// state.
func VH_C20_Step() {
	m := vTM(false)
	base0 := m.resendBooster.originalTimeout
	bc0 := m.resendBooster.boostCount
	lb0 := m.resendBooster.lastBoost
	synT := m.latestSentSYNTime
	now := time.Now()
	msg := vMsg()
	sent := vBool("ev_sent")
	resent := vBool("ev_resent")
	var sample time.Time
	var haveSample bool
	if a, ok := msg.(*PacketACK); ok {
		sample, haveSample = m.sentTimes[a.Seq]
	}
	vReach("step")
	if sent {
		m.Sent(msg, resent)
	} else {
		m.Received(msg)
	}
	base1 := m.resendBooster.originalTimeout
	bc1 := m.resendBooster.boostCount
	// floor: the value handed out is base + boost increase; the increase is
	// shown non-negative for every booster state in VH_C20_BoostFloor
	vAssert(base1 >= time.Second, "adaptive base timeout below the one-second floor")
	vAssert(bc1 >= 0 && m.resendBooster.boostPercent > 0, "booster left its valid state")
	vAssert(m.resendTimeout == base1, "resendTimeout and booster base diverged")
	// the base changes only in Received, only from a valid sample
	if base1 != base0 {
		vAssert(!sent, "base timeout changed by a Sent event")
		var rtt time.Duration
		switch msg.(type) {
		case *PacketSYN, *PacketSYNACK:
			vAssert(!synT.IsZero(), "base recomputed from a SYN that was resent or never sent")
			rtt = now.Sub(synT)
		case *PacketACK:
			vAssert(haveSample, "base recomputed without a round-trip sample")
			rtt = now.Sub(sample)
		default:
			vAssert(false, "base recomputed on a packet that carries no sample")
		}
		want := time.Duration(m.resendMultiplier) * rtt
		if want < time.Second {
			want = time.Second
		}
		vAssert(base1 == want, "base is not max(1s, multiplier*RTT)")
		vAssert(bc1 == 0, "boost not reset when a fresh sample was taken")
	} else if !sent && bc1 != bc0 {
		// a fresh sample equal to the old base also resets the boost
		vAssert(bc1 == 0, "Received changed the boost count without resetting it")
	}
	// boosts: at most one step, only on a resent DATA, only once per base interval
	if bc1 > bc0 {
		_, isData := msg.(*PacketData)
		vAssert(bc1 == bc0+1, "boost grew by more than one step")
		vAssert(sent && resent && isData, "boost without a retransmitted DATA packet")
		vAssert(now.Sub(lb0) >= base0, "second boost within one base-timeout interval")
	}
}

// VH_C20_NoSampleAfterResend: a DATA packet that was retransmitted, or a SYN
// that was resent, never produces a round-trip sample.
func VH_C20_NoSampleAfterResend() {
	m := vTM(false)
	base0 := m.resendBooster.originalTimeout
	seq := vU8("seq")
	if vBool("syn_case") {
		m.Sent(&PacketSYN{N: 20}, true)
		vAdv("t_d")
		vReach("syn-resent")
		if vBool("synack") {
			m.Received(&PacketSYNACK{})
		} else {
			m.Received(&PacketSYN{N: 20})
		}
	} else {
		m.Sent(&PacketData{Seq: seq}, true)
		vAdv("t_d")
		vReach("data-resent")
		m.Received(&PacketACK{Seq: seq})
	}
	vAssert(m.resendBooster.originalTimeout == base0, "timeout recomputed from a retransmitted packet's round trip")
}

// VH_C20_SampleOnce: one sent packet gives at most one round-trip sample. From
// an arbitrary valid state a DATA packet is sent and acknowledged; a duplicate
// of that acknowledgement arriving later (the transport may duplicate) must
// not be taken for another round trip: base timeout and boost are as the first
// acknowledgement left them.
func VH_C20_SampleOnce() {
	m := vTM(false)
	seq := vU8("seq")
	m.Sent(&PacketData{Seq: seq}, false)
	vAdv("t_d")
	m.Received(&PacketACK{Seq: seq})
	base1, bc1 := m.resendBooster.originalTimeout, m.resendBooster.boostCount
	vAdv("t_e")
	vReach("dup-ack")
	m.Received(&PacketACK{Seq: seq})
	vAssert(m.resendBooster.originalTimeout == base1 && m.resendTimeout == base1, "a duplicate acknowledgement was taken for a fresh round-trip sample (timeout recomputed from a used-up send time)")
	vAssert(m.resendBooster.boostCount == bc1, "a duplicate acknowledgement reset the boost")
}

// VH_C20_Static: a statically configured timeout is never changed by traffic.
func VH_C20_Static() {
	m := vTM(true)
	t0 := m.GetResendTimeout()
	h0 := m.GetHandshakeTimeout()
	for i := 0; i < 2; i++ {
		msg := vMsg()
		if vBool("ev_sent") {
			m.Sent(msg, vBool("ev_resent"))
		} else {
			m.Received(msg)
		}
		vAdv("t_e")
	}
	vReach("static")
	vAssert(m.GetResendTimeout() == t0, "static resend timeout changed by traffic")
	vAssert(m.GetHandshakeTimeout() == h0, "handshake timeout changed by traffic in static mode")
}

// VH_C20_BoostFloor: for every booster state (base 1s..2^40ns, percent in
// (0,1], count 0..1024) the boosted value is never below the base, and with a
// zero count (fresh sample) it is exactly the base. float32 arithmetic is
// decided as SMT FloatingPoint.
func VH_C20_BoostFloor() {
	rt := vI64("base")
	vAssume(rt >= int64(time.Second) && rt <= vMaxDur)
	pct := vF32("pct")
	vAssume(pct > 0 && pct <= 1)
	b := NewTimeoutBooster(time.Duration(rt), pct, true)
	bc := vInt("count")
	vAssume(bc >= 0 && bc <= 1024)
	b.boostCount = bc
	vReach("floor")
	vAssert(b.GetCurrentTimeout() >= time.Duration(rt), "boosted timeout below its base")
	b.boostCount = 0
	vAssert(b.GetCurrentTimeout() == time.Duration(rt), "timeout does not return to the measured value when the boost is reset")
}

// VH_C20_GetResend: GetResendTimeout hands out exactly the booster's value.
func VH_C20_GetResend() {
	m := NewTimeOutManager(nil)
	m.resendBooster.boostCount = 3
	vReach("getresend")
	vAssert(m.GetResendTimeout() == m.resendBooster.GetCurrentTimeout(), "GetResendTimeout is not the booster value")
	vAssert(m.GetResendTimeout() == 2500*time.Millisecond, "default 1s base, 50% boost, 3 boosts is not 2.5s")
}

// VH_C20_FreshSample: "returns to the measured value when a fresh sample is
// taken". From an arbitrary valid adaptive state (any boost count, any base)
// in which the next response is due to be sampled (update frequency 1, or no
// dynamic timeout set yet), a packet is sent once, and its answer arrives after
// a symbolic delay d: afterwards GetResendTimeout() is exactly
// max(1 s, multiplier*d) - whatever boost had accumulated is gone, also when
// the new value equals the old base (e.g. both at the floor).
func VH_C20_FreshSample() {
	m := vTM(false)
	if m.timeoutUpdateFrequency != 1 && m.hasSetDynamicTimeout {
		return // this response is not necessarily sampled
	}
	seq := vU8("seq")
	syn := vBool("syn_case")
	if syn {
		m.Sent(&PacketSYN{N: 20}, false)
	} else {
		m.Sent(&PacketData{Seq: seq}, false)
	}
	d := vI64("t_d")
	vAssume(d >= 0 && d <= vMaxDur/16)
	vAdvance(time.Duration(d))
	if syn {
		m.Received(&PacketSYNACK{})
	} else {
		m.Received(&PacketACK{Seq: seq})
	}
	vReach("fresh-sample")
	want := time.Duration(m.resendMultiplier) * time.Duration(d)
	if want < time.Second {
		want = time.Second
	}
	vAssert(m.GetResendTimeout() == want, "after a fresh round-trip sample the resend timeout is not the measured value max(1s, multiplier*RTT) (a boost survived the sample)")
}

// VH_C20_TwoResends: "grows only through retransmission boosts of at most one
// step per base-timeout interval", across two events. From an arbitrary valid
// adaptive state two DATA packets are retransmitted less than one base timeout
// apart (a resent queue puts its packets on the wire back to back): the boost
// count grows by at most one over both, however old the last boost was.
func VH_C20_TwoResends() {
	m := vTM(false)
	base := m.resendBooster.originalTimeout
	bc0 := m.resendBooster.boostCount
	m.Sent(&PacketData{Seq: vU8("seq1")}, true)
	d := vI64("t_gap")
	vAssume(d >= 0 && time.Duration(d) < base)
	vAdvance(time.Duration(d))
	m.Sent(&PacketData{Seq: vU8("seq2")}, true)
	vReach("two-resends")
	vAssert(m.resendBooster.originalTimeout == base, "base timeout changed by Sent events")
	vAssert(m.resendBooster.boostCount <= bc0+1, "two retransmissions less than one base timeout apart boosted the resend timeout by more than one step")
}

// VH_C20_Burst: several packets handed to the transport back to back - the
// clock may read the same for all of them (a coarse clock, or simply a fast
// sender) - and acknowledged one after the other. Every one of them is a
// packet that was not retransmitted, so every acknowledgement is a round-trip
// sample: with an update frequency of 1 the timeout after the last
// acknowledgement is the multiplier times that packet's own round trip (not
// below the floor), with the boost gone.
func VH_C20_Burst() {
	mult := [3]int{1, 2, 5}[vIntRange("mult_idx", 0, 2)]
	m := NewTimeOutManager(nil, WithResendMultiplier(mult), WithTimeoutUpdateFrequency(1))
	vAdv("t_boot")
	s1, s2 := vU8("seq1"), vU8("seq2")
	vAssume(s1 != s2)
	m.Sent(&PacketData{Seq: s1}, false)
	gap := vI64("gap")
	vAssume(gap >= 0 && gap <= vMaxDur)
	vAdvance(time.Duration(gap))
	m.Sent(&PacketData{Seq: s2}, false)
	r1, r2 := vI64("rtt1"), vI64("rtt2")
	vAssume(r1 >= 0 && r1 <= vMaxDur && r2 >= 0 && r2 <= vMaxDur)
	vAdvance(time.Duration(r1))
	m.Received(&PacketACK{Seq: s1})
	vAdvance(time.Duration(r2))
	m.Received(&PacketACK{Seq: s2})
	vReach("burst")
	want := time.Duration(mult) * time.Duration(r1+r2)
	if want < minimumResendTimeout {
		want = minimumResendTimeout
	}
	vAssert(m.GetResendTimeout() == want, "the acknowledgement of a packet sent in a burst (possibly at the same clock reading as its predecessor) did not produce its round-trip sample")
}
