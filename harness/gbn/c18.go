//go:build verif

package gbn

import (
	"context"
	"sync"
	"time"
)

// vTickerOp: the operations the two connection loops and Close perform on
// the keep-alive tickers.
func vTickerOp(t *IntervalAwareForceTicker, op int) {
	switch op {
	case 0:
		t.Reset()
	case 1:
		t.Pause()
	case 2:
		t.Resume()
	case 3:
		_ = t.IsActive()
	case 4:
		select {
		case <-t.Ticks():
		default:
		}
	}
}

// VH_C18_Ticker: two goroutines perform one ticker operation each, as the send
// loop and the receive loop do (ping tick handling vs. packet arrival), under
// every interleaving within the deviation budget; happens-before race
// detection, channel-misuse panics and deadlocks are reported.
func VH_C18_Ticker() {
	t := NewIntervalAwareForceTicker(time.Second)
	t.Resume()
	a, b := vIntRange("op_a", 0, 4), vIntRange("op_b", 0, 4)
	var wg sync.WaitGroup
	wg.Add(2)
	go func() { defer wg.Done(); vTickerOp(t, a) }()
	go func() { defer wg.Done(); vTickerOp(t, b) }()
	wg.Wait()
	vReach("ticker-ops")
	t.Stop()
}

// VH_C18_TimeoutManager: concurrent Sent / Received / getters / setters.
func VH_C18_TimeoutManager() {
	m := NewTimeOutManager(nil)
	op := func(i int) {
		switch i {
		case 0:
			m.Sent(&PacketData{Seq: 1}, false)
		case 1:
			m.Sent(&PacketData{Seq: 1}, true)
		case 2:
			m.Received(&PacketACK{Seq: 1})
		case 3:
			_ = m.GetResendTimeout()
		case 4:
			m.SetSendTimeout(time.Second)
		case 5:
			_ = m.GetSendTimeout()
		case 6:
			m.Sent(&PacketSYN{N: 2}, false)
		case 7:
			m.Received(&PacketSYN{N: 2})
		case 8:
			_ = m.GetHandshakeTimeout()
		}
	}
	m.Sent(&PacketData{Seq: 1}, false)
	a, b := vIntRange("op_a", 0, 8), vIntRange("op_b", 0, 8)
	var wg sync.WaitGroup
	wg.Add(2)
	go func() { defer wg.Done(); op(a) }()
	go func() { defer wg.Done(); op(b) }()
	wg.Wait()
	vReach("tm-ops")
}

// VH_C18_Queue: the send loop's and the receive loop's queue operations.
func VH_C18_Queue() {
	q := newQueue(&queueCfg{s: 4, sendPkt: func(*PacketData) error { return nil }}, NewTimeOutManager(nil, WithStaticResendTimeout(time.Second)))
	q.addPacket(&PacketData{})
	q.addPacket(&PacketData{})
	sendOp := func(i int) { // send goroutine
		switch i {
		case 0:
			q.addPacket(&PacketData{})
		case 1:
			_ = q.size()
		case 2:
			_ = q.resend()
		}
	}
	recvOp := func(i int) { // receive goroutine
		switch i {
		case 0:
			q.processACK(0)
		case 1:
			q.processNACK(1)
		case 2:
			q.processACK(1)
		}
	}
	a, b := vIntRange("send_op", 0, 2), vIntRange("recv_op", 0, 2)
	var wg sync.WaitGroup
	wg.Add(2)
	go func() { defer wg.Done(); sendOp(a) }()
	go func() { defer wg.Done(); recvOp(b) }()
	wg.Wait()
	vReach("queue-ops")
	q.stop()
}

// VH_C18_Conn: a live pair with keep-alive; the application calls Send, Recv,
// the timeout setters and Close from different goroutines while the internal
// loops run (pings, acknowledgements, resends).
func VH_C18_Conn() {
	n := uint8(vIntRange("n", 1, 2))
	p := vConnect(n, vParam("faults", 1), WithKeepalivePing(time.Second, time.Second))
	if p.cliErr != nil || p.srvErr != nil {
		return
	}
	p.arm()
	var wg sync.WaitGroup
	wg.Add(4)
	go func() {
		defer wg.Done()
		for i := 0; i < 2; i++ {
			if p.cli.Send([]byte{byte(i)}) != nil {
				return
			}
		}
	}()
	go func() {
		defer wg.Done()
		for i := 0; i < 2; i++ {
			if _, err := p.srv.Recv(); err != nil {
				return
			}
		}
	}()
	go func() {
		defer wg.Done()
		p.cli.SetSendTimeout(time.Minute)
		p.cli.SetRecvTimeout(time.Minute)
		p.srv.SetRecvTimeout(time.Minute)
	}()
	go func() {
		defer wg.Done()
		// close instants include the keep-alive tick instants themselves (1 s,
		// 2 s: Close coinciding with a timer expiry) and points in between
		at := [6]time.Duration{0, 700 * time.Millisecond, time.Second, 1400 * time.Millisecond, 2 * time.Second, 2100 * time.Millisecond}
		time.Sleep(at[vIntRange("close_at", 0, vParam("closepoints", 5))])
		if vBool("close_client") {
			p.cli.Close()
		} else {
			p.srv.Close()
		}
	}()
	wg.Wait()
	vReach("conn-race")
	time.Sleep(5 * time.Second)
	p.shutdown()
}

// VH_C18_CloseVsTick: Close while the send loop is held up inside a slow
// transport write and a keep-alive tick has expired meanwhile: when the write
// returns, the loop finds both the quit signal and the tick ready. Whatever
// it picks, nothing panics (tickers stopped by Close are not reset or resumed
// afterwards) and Close returns.
func VH_C18_CloseVsTick() {
	p := vConnect(uint8(vIntRange("n", 1, 2)), 0, WithKeepalivePing(time.Second, time.Second))
	if p.cliErr != nil || p.srvErr != nil {
		return
	}
	p.c2s.slowData = time.Second
	go func() {
		for {
			if _, err := p.srv.Recv(); err != nil {
				return
			}
		}
	}()
	var wg sync.WaitGroup
	wg.Add(2)
	go func() {
		defer wg.Done()
		time.Sleep(500 * time.Millisecond)
		p.cli.Send([]byte{1}) // in the transport from 0.5 s to 1.5 s; the ping tick expires at 1 s
	}()
	go func() {
		defer wg.Done()
		at := [4]time.Duration{time.Second, 1200 * time.Millisecond, 1500 * time.Millisecond, 1600 * time.Millisecond}
		time.Sleep(at[vIntRange("close_at", 0, 3)])
		p.cli.Close()
	}()
	wg.Wait()
	vReach("close-vs-tick")
	time.Sleep(5 * time.Second)
	p.shutdown()
}

// VH_C18_LoopVsSetter: the connection's own receive activity against the
// timeout setters. One goroutine runs the real receive loop over a script of
// two packets (in-order data, out-of-order data twice - the NACK path with its
// back-off test -, ACK then NACK for queued packets, a ping and its answer);
// another goroutine calls one of the setters / getters the application may
// call at any time. Every interleaving at lock operations within the
// deviation budget; data races, lock-order and recursive-read-lock deadlocks
// are reported.
func VH_C18_LoopVsSetter() {
	scripts := [4][2]Message{
		{&PacketData{Seq: 0, FinalChunk: true, Payload: []byte{1}}, &PacketData{Seq: 1, FinalChunk: true, Payload: []byte{2}}},
		{&PacketData{Seq: 2, FinalChunk: true, Payload: []byte{1}}, &PacketData{Seq: 2, FinalChunk: true, Payload: []byte{1}}},
		{&PacketACK{Seq: 0}, &PacketNACK{Seq: 1}},
		{&PacketData{Seq: 0, IsPing: true}, &PacketACK{Seq: 1}},
	}
	sc := scripts[vIntRange("script", 0, 3)]
	reps := vNativeReps(1, 400)
	w := &vWire{}
	for r := 0; r < reps; r++ {
		for _, m := range sc {
			b, err := m.Serialize()
			vAssume(err == nil)
			w.in = append(w.in, b)
		}
	}
	g := vConn(3, w)
	// two packets outstanding, so that ACK and NACK do real work
	for i := 0; i < 2; i++ {
		pkt := &PacketData{Payload: []byte{byte(i)}, FinalChunk: true}
		g.sendQueue.addPacket(pkt)
		g.timeoutManager.Sent(pkt, false)
	}
	op := vIntRange("setter", 0, 3)
	var wg sync.WaitGroup
	wg.Add(2)
	go func() { defer wg.Done(); _ = g.receivePacketsForever() }()
	go func() {
		defer wg.Done()
		for r := 0; r < reps; r++ {
			switch op {
			case 0:
				g.SetSendTimeout(time.Minute)
			case 1:
				g.SetRecvTimeout(time.Minute)
			case 2:
				g.SetSendTimeout(time.Minute)
				g.SetRecvTimeout(time.Second)
			case 3:
				_ = g.timeoutManager.GetResendTimeout()
				g.SetRecvTimeout(time.Minute)
			}
		}
	}()
	wg.Wait()
	vReach("loop-vs-setter")
}

// VH_C18_PongVsPacket: "timer expiries that coincide with packet arrivals".
// Only the client pings (1 s / 1 s); the peer's answer to the first ping
// arrives exactly when the pong timeout expires, or a little earlier / later
// (symbolic choice), so that the send loop's handling of the expired pong
// timer and the receive loop's handling of the packet (which touches the same
// tickers) run against each other in either order; then the connection is
// closed. Nothing may panic (close of a closed channel, use of a stopped
// ticker) or deadlock, whichever loop wins.
func VH_C18_PongVsPacket() {
	ping, pong := time.Second, time.Second
	p := &vPair{c2s: newLink("c2s", 0), s2c: newLink("s2c", 0)}
	p.ctx, p.cancel = context.WithCancel(context.Background())
	off := [3]time.Duration{-time.Millisecond, 0, time.Millisecond}[vIntRange("offset", 0, 2)]
	// packet 0 from the server is its SYN; packet 1 is the answer to the
	// client's first ping
	p.s2c.latFn = func(i int) time.Duration {
		if i == 1 {
			return pong + off
		}
		return 0
	}
	done := make(chan struct{}, 2)
	go func() {
		p.srv, p.srvErr = NewServerConn(p.ctx, p.s2c.send, p.c2s.recv, WithTimeoutOptions(WithStaticResendTimeout(30*time.Second)))
		done <- struct{}{}
	}()
	go func() {
		p.cli, p.cliErr = NewClientConn(p.ctx, 2, p.c2s.send, p.s2c.recv, WithTimeoutOptions(WithStaticResendTimeout(30*time.Second), WithKeepalivePing(ping, pong)))
		done <- struct{}{}
	}()
	<-done
	<-done
	if p.cliErr != nil || p.srvErr != nil {
		return
	}
	time.Sleep(ping + pong + 2*time.Second)
	vReach("pong-vs-packet")
	p.shutdown()
	time.Sleep(2 * time.Second)
}

// VH_C18_TwoCallers: Send and Recv each called from two goroutines at once on
// one connection (the statement lets the application call them "concurrently
// from different goroutines"). Two chunked messages are queued; two goroutines
// call Recv, two call Send on the other end of the pipe. No data race on the
// per-connection state those calls share, no panic, no deadlock.
func VH_C18_TwoCallers() {
	a, b, ch := vPipe(1)
	_ = ch
	var wg sync.WaitGroup
	wg.Add(4)
	for i := 0; i < 2; i++ {
		i := i
		go func() { defer wg.Done(); _ = a.Send([]byte{byte(i), byte(i + 10)}) }()
		go func() { defer wg.Done(); _, _ = b.Recv() }()
	}
	wg.Wait()
	vReach("two-callers")
}

// VH_C18_SettersBoth: SetSendTimeout and SetRecvTimeout called at the same
// time from two goroutines (an RPC layer's writer sets a write deadline while
// its reader sets a read deadline). Besides being race free, both updates
// must take effect: afterwards each getter returns what its setter stored.
func VH_C18_SettersBoth() {
	g := vConn(2, &vWire{})
	var wg sync.WaitGroup
	wg.Add(2)
	go func() { defer wg.Done(); g.SetSendTimeout(3 * time.Second) }()
	go func() { defer wg.Done(); g.SetRecvTimeout(5 * time.Second) }()
	wg.Wait()
	vReach("setters-both")
	vAssert(g.timeoutManager.GetSendTimeout() == 3*time.Second, "a send timeout set concurrently with the receive timeout was lost")
	vAssert(g.timeoutManager.GetRecvTimeout() == 5*time.Second, "a receive timeout set concurrently with the send timeout was lost")
}
