//go:build verif

package gbn

// VH_C07_Deserialize: gbn.Deserialize never panics on any byte string of
// length 0..maxLen (contents symbolic) and never returns (nil, nil).
func VH_C07_Deserialize() {
	n := vIntRange("len", 0, vParam("maxlen", 8))
	b := vBytes("b", n)
	vReach("deserialize")
	m, err := Deserialize(b)
	vAssert(err != nil || m != nil, "Deserialize returned nil message without error")
}
