//go:build verif

package gbn

// VH_C07_Deserialize: gbn.Deserialize never panics on any byte string of
// length 0..maxLen (contents symbolic) and never returns (nil, nil).
func VH_C07_Deserialize() {
	n := vIntRange("len", 0, vParam("maxlen", 8))
	b := vBytes("b", n)
	vReach("deserialize")
	m, err := Deserialize(b)
	vAssert(err != nil || m != nil, "Deserialize returned nil message without error")
}

// VH_C07_RecvLoopStep: one iteration of the live data-phase receive loop from
// an arbitrary in-range window state, for an arbitrary packet of length
// 0..maxlen (all types, all field values - includes all 256 ACK/NACK values):
// no panic, and the window bookkeeping stays inside the sequence space.
func VH_C07_RecvLoopStep() {
	n := vU8("n")
	vAssume(n >= 1 && n <= 254)
	l := vIntRange("len", 0, vParam("maxlen", 5))
	raw := vBytes("b", l)
	w := &vWire{in: [][]byte{raw}}
	g := vConn(n, w)
	q := g.sendQueue
	q.sequenceBase, q.sequenceTop = vU8("base"), vU8("top")
	vAssume(q.sequenceBase < q.cfg.s && q.sequenceTop < q.cfg.s && q.size() <= n)
	g.recvSeq = vU8("recvSeq")
	vAssume(g.recvSeq < g.cfg.s)
	vReach("loop-step")
	_ = g.receivePacketsForever()
	vInv(q, n, "receive loop")
	vAssert(g.recvSeq < g.cfg.s, "receive loop: expected sequence number left the sequence space")
	vAssert(g.cfg.s == n+1 && g.cfg.n == n, "receive loop changed the window configuration")
}
