//go:build verif

package gbn

import (
	"context"
	"time"
)

// VH_C12_Close: Close is injected at a symbolic moment of a connection's life
// (right after the handshake, in the middle of traffic, during a
// retransmission, with Send or Recv blocked), by the client, the server or
// both, once or twice, with the transport healthy or silent. Close returns
// within a bounded time, blocked and later calls fail, the peer learns about
// it when the transport works, and afterwards no goroutine or timer of either
// connection is left.
func VH_C12_Close() {
	n := uint8(vIntRange("n", 1, vParam("maxn", 2)))
	keepalive := vBool("keepalive")
	var opts []TimeoutOptions
	if keepalive {
		opts = append(opts, WithKeepalivePing(5*time.Second, 3*time.Second))
	}
	p := vConnect(n, vParam("faults", 1), opts...)
	vAssert(p.cliErr == nil && p.srvErr == nil, "clean handshake failed")
	if p.cliErr != nil || p.srvErr != nil {
		return
	}
	p.arm()
	if vBool("send_ignores_cancel") {
		p.c2s.ignoreCancel, p.s2c.ignoreCancel = true, true
	}
	// background traffic: the client sends k messages, the server receives
	k := vIntRange("msgs", 0, int(n)+1)
	sendDone := make(chan error, 1)
	recvDone := make(chan error, 1)
	go func() {
		var err error
		for i := 0; i < k && err == nil; i++ {
			err = p.cli.Send([]byte{byte(i)})
		}
		sendDone <- err
	}()
	// the server application either reads forever or does not read at all (the
	// receive buffer then fills up and the receive loop is parked on it)
	serverReads := vBool("server_reads")
	go func() {
		if !serverReads {
			<-p.srv.quit
			recvDone <- errTransportClosing
			return
		}
		for {
			if _, err := p.srv.Recv(); err != nil {
				recvDone <- err
				return
			}
		}
	}()
	cliRecv := make(chan error, 1)
	go func() { _, err := p.cli.Recv(); cliRecv <- err }() // blocked Recv on the client

	// when: 0 at once, then various points of virtual time (inside resend waits)
	when := [5]time.Duration{0, time.Millisecond, 900 * time.Millisecond, 1100 * time.Millisecond, 3500 * time.Millisecond}[vIntRange("when", 0, 4)]
	time.Sleep(when)
	silent := vBool("transport_silent")
	if silent {
		p.c2s.dead, p.s2c.dead = true, true
	}
	who := vIntRange("who", 0, 2) // 0 client, 1 server, 2 both at once
	twice := vBool("twice")
	closeDone := make(chan time.Duration, 4)
	closer := func(c *GoBackNConn) {
		t0 := time.Now()
		c.Close()
		if twice {
			c.Close()
		}
		closeDone <- time.Since(t0)
	}
	nClosers := 1
	switch who {
	case 0:
		go closer(p.cli)
	case 1:
		go closer(p.srv)
	case 2:
		nClosers = 2
		go closer(p.cli)
		go closer(p.srv)
	}
	for i := 0; i < nClosers; i++ {
		select {
		case d := <-closeDone:
			vAssert(d <= 2*time.Second, "Close took longer than the FIN send timeout plus slack")
		case <-time.After(30 * time.Second):
			vReach("close-hangs")
			vAssert(false, "Close did not return")
			return
		}
	}
	vReach("closed")
	// calls on a closed endpoint fail
	if who == 0 || who == 2 {
		vAssert(p.cli.Send([]byte{1}) != nil, "Send on a closed connection succeeded")
		select {
		case err := <-cliRecv:
			vAssert(err != nil, "blocked Recv returned without error after Close")
		case <-time.After(5 * time.Second):
			vAssert(false, "Recv still blocked after Close")
		}
		select {
		case <-sendDone:
		case <-time.After(5 * time.Second):
			vAssert(false, "Send still blocked after Close")
		}
	}
	if who == 1 || who == 2 {
		_, err := p.srv.Recv()
		vAssert(err != nil, "Recv on a closed connection succeeded")
		select {
		case <-recvDone:
		case <-time.After(5 * time.Second):
			vAssert(false, "server Recv loop still blocked after Close")
		}
	}
	// the peer is told by FIN when the transport works (or finds out through keep-alive)
	if !silent && vParam("faults", 1) == 0 {
		deadline := time.After(20 * time.Second)
		// (a peer whose application does not read learns about the FIN only once
		// it drains its receive buffer: nothing of it is hanging meanwhile)
		if who == 0 && serverReads {
			select {
			case <-p.srv.quit:
			case <-deadline:
				vAssert(false, "peer not told about Close although the transport works")
			}
		}
		if who == 1 {
			select {
			case <-p.cli.quit:
			case <-deadline:
				vAssert(false, "peer not told about Close although the transport works")
			}
		}
	}
	// tear everything down and look for leftovers
	p.cancel()
	p.cli.Close()
	p.srv.Close()
	time.Sleep(time.Minute)
	vQuiesce()
	vReach("quiesced")
	vAssert(vLiveGoroutines() == 0, "goroutines left running after Close: "+vGoroutineDump())
	vAssert(vLiveTickers() == 0, "tickers left running after Close")
}

// VH_C12_HandshakeAbort: the client's SYNACK is lost, so the client is in the
// data phase while the server still waits for the SYNACK. The client's first
// packets (data, or nothing for a while) reach the server either before its
// handshake timeout - the server then gives up the handshake with an error and
// closes - or after it (the server completes the handshake). No keep-alive.
// If the server gave up, the client must be told (FIN over the working
// transport): its Recv fails instead of hanging. If the server completed, the
// message is delivered.
func VH_C12_HandshakeAbort() {
	p := &vPair{c2s: newLink("c2s", 0), s2c: newLink("s2c", 0)}
	p.ctx, p.cancel = context.WithCancel(context.Background())
	// client packets: #0 SYN, #1 SYNACK (lost)
	p.c2s.armed, p.c2s.dropFrom, p.c2s.dropTo = true, 1, 2
	srvDone, cliDone := make(chan struct{}), make(chan struct{})
	go func() {
		p.srv, p.srvErr = NewServerConn(p.ctx, p.s2c.send, p.c2s.recv)
		close(srvDone)
	}()
	go func() {
		p.cli, p.cliErr = NewClientConn(p.ctx, uint8(vIntRange("n", 1, 2)), p.c2s.send, p.s2c.recv)
		close(cliDone)
	}()
	<-cliDone
	vAssert(p.cliErr == nil, "client handshake failed although only its SYNACK was lost")
	if p.cliErr != nil {
		p.cancel()
		return
	}
	// the client starts talking at once, or only after the server's handshake timeout
	time.Sleep(time.Duration(vIntRange("client_waits_s", 0, 1)) * 3 * time.Second)
	msg := vBytes("m", 1)
	sendErr := make(chan error, 1)
	go func() { sendErr <- p.cli.Send(msg) }()
	select {
	case <-srvDone:
	case <-time.After(60 * time.Second):
		vAssert(false, "server handshake neither completed nor failed within a minute")
		p.cancel()
		return
	}
	recvErr := make(chan error, 1)
	go func() { _, err := p.cli.Recv(); recvErr <- err }()
	if p.srvErr != nil || p.srv == nil {
		vReach("server-gave-up")
		select {
		case err := <-recvErr:
			vAssert(err != nil, "client Recv returned data from a server that gave up")
		case <-time.After(30 * time.Second):
			vAssert(false, "the server gave up its handshake over a working transport but the client was not told: its Recv hangs")
		}
		p.cancel()
		p.cli.Close()
		return
	}
	vReach("server-completed")
	got, err := p.srv.Recv()
	vAssert(err == nil && vBytesEq(got, msg), "message not delivered after the server completed the handshake")
	vAssert(<-sendErr == nil, "client Send failed")
	p.shutdown()
}

// VH_C12_CloseDuringResend: "during a retransmission ... the peer is told by a
// FIN when the transport still works". The direction towards the client is
// down (acknowledgements lost), the direction towards the server works. The
// client has sent a message and is retransmitting it (resend, then the
// post-resend wait of up to three resend timeouts) when it is closed, at a
// symbolic instant inside that phase. Close returns in bounded time, and the
// server - keep-alive off, so a FIN is the only way for it to learn - finds
// its blocked Recv failing shortly afterwards.
func VH_C12_CloseDuringResend() {
	p := vConnect(uint8(vIntRange("n", 1, 2)), 0, WithStaticResendTimeout(time.Second))
	vAssert(p.cliErr == nil && p.srvErr == nil, "clean handshake failed")
	if p.cliErr != nil || p.srvErr != nil {
		return
	}
	p.s2c.dead = true
	srvDone := make(chan time.Time, 1)
	go func() {
		for {
			if _, err := p.srv.Recv(); err != nil {
				srvDone <- time.Now()
				return
			}
		}
	}()
	vAssert(p.cli.Send([]byte{1}) == nil, "Send failed")
	at := [5]time.Duration{900 * time.Millisecond, 1200 * time.Millisecond, 2 * time.Second, 3500 * time.Millisecond, 4200 * time.Millisecond}[vIntRange("close_at", 0, 4)]
	time.Sleep(at)
	t0 := time.Now()
	closed := make(chan struct{})
	go func() { p.cli.Close(); close(closed) }()
	select {
	case <-closed:
		vAssert(time.Since(t0) <= 5*time.Second, "Close took longer than its FIN timeout allows")
	case <-time.After(30 * time.Second):
		vAssert(false, "Close did not return within 30 s")
		return
	}
	vReach("closed-during-resend")
	// no timer of the connection keeps running: a resend ticker that was
	// re-armed after Close stopped it would tick within the resend timeout
	time.Sleep(3 * time.Second)
	select {
	case <-p.cli.resendTicker.C:
		vAssert(false, "the connection's resend ticker is still running after Close returned (timer leak)")
	default:
	}
	select {
	case <-srvDone:
		vReach("peer-told")
	case <-time.After(10 * time.Second):
		vAssert(false, "the peer was not told (no FIN) although the transport towards it works: its Recv still hangs 10 s after Close returned")
	}
	p.shutdown()
}

// VH_C12_CloseBlockedResend: "during a retransmission" with a transport whose
// writes block (flow control, nobody drains the stream) and only return when
// the context they were given is cancelled - as the mailbox's gRPC streams do.
// One party (client or server, symbolic) has an unacknowledged message; the
// transport stalls; the retransmission is stuck inside the write when Close
// is called. Close returns in bounded time and the connection's goroutines
// are gone - whichever context the retransmission path writes under must be
// one that Close cancels.
func VH_C12_CloseBlockedResend() {
	p := vConnect(uint8(vIntRange("n", 1, 2)), 0, WithStaticResendTimeout(time.Second))
	vAssert(p.cliErr == nil && p.srvErr == nil, "clean handshake failed")
	if p.cliErr != nil || p.srvErr != nil {
		return
	}
	under, out, back := p.cli, p.c2s, p.s2c
	if vBool("server_sends") {
		under, out, back = p.srv, p.s2c, p.c2s
	}
	back.mu.Lock()
	back.dead = true // acknowledgements are lost
	back.mu.Unlock()
	vAssert(under.Send([]byte{1}) == nil, "Send failed")
	time.Sleep(500 * time.Millisecond)
	out.mu.Lock()
	out.stalled = true
	out.mu.Unlock()
	// the resend timeout (1 s) fires at about t = 1 s; Close comes while the
	// retransmission sits in the transport write
	time.Sleep([3]time.Duration{700 * time.Millisecond, 1500 * time.Millisecond, 3 * time.Second}[vIntRange("close_after", 0, 2)])
	t0 := time.Now()
	closed := make(chan struct{})
	go func() { under.Close(); close(closed) }()
	select {
	case <-closed:
		vAssert(time.Since(t0) <= 5*time.Second, "Close took longer than its FIN timeout allows")
	case <-time.After(30 * time.Second):
		vAssert(false, "Close did not return within 30 s while a retransmission is blocked in the transport write")
		return
	}
	vReach("closed-blocked-resend")
	out.mu.Lock()
	out.stalled = false
	out.mu.Unlock()
	p.shutdown()
}

// VH_C12_KeepaliveTellsPeer: a connection that closes itself (keep-alive
// timeout on a half-dead link: nothing reaches the client any more, but what
// the client sends still arrives) goes through the same Close as one closed
// by the application: the peer - which has no keep-alive of its own - is told
// by a FIN over the working direction, so that its blocked Recv fails instead
// of hanging. The transport refuses writes under a cancelled context, as gRPC
// streams do.
func VH_C12_KeepaliveTellsPeer() {
	p := &vPair{c2s: newLink("c2s", 0), s2c: newLink("s2c", 0)}
	p.ctx, p.cancel = context.WithCancel(context.Background())
	done := make(chan struct{}, 2)
	go func() {
		p.srv, p.srvErr = NewServerConn(p.ctx, p.s2c.send, p.c2s.recv)
		done <- struct{}{}
	}()
	go func() {
		p.cli, p.cliErr = NewClientConn(p.ctx, uint8(vIntRange("n", 1, 2)), p.c2s.send, p.s2c.recv, WithTimeoutOptions(WithKeepalivePing(2*time.Second, time.Second)))
		done <- struct{}{}
	}()
	<-done
	<-done
	vAssert(p.cliErr == nil && p.srvErr == nil, "clean handshake failed")
	if p.cliErr != nil || p.srvErr != nil {
		return
	}
	p.s2c.mu.Lock()
	p.s2c.dead = true
	p.s2c.mu.Unlock()
	srvRecv := make(chan error, 1)
	go func() { _, err := p.srv.Recv(); srvRecv <- err }()
	select {
	case <-p.cli.quit:
		vReach("keepalive-gave-up")
	case <-time.After(60 * time.Second):
		vAssert(false, "keep-alive did not close the connection although nothing arrives any more")
		return
	}
	select {
	case err := <-srvRecv:
		vReach("peer-told-after-keepalive")
		vAssert(err != nil, "Recv returned data on a connection whose peer gave up")
	case <-time.After(15 * time.Second):
		vAssert(false, "the peer was not told (no FIN) after a keep-alive timeout although the transport towards it works: its Recv still hangs")
	}
	p.shutdown()
}
