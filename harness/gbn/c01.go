//go:build verif

package gbn

import (
	"context"
	"errors"
	"math"
)

var vErrEnd = errors.New("verif: end of script")

// vConn builds a real GoBackNConn (real constructor) whose transport is a
// script: recvFromStream returns the given packets one after the other and
// then fails; sendToStream records what is put on the wire.
type vWire struct {
	in   [][]byte
	out  [][]byte
	next int
}

func (w *vWire) recv(ctx context.Context) ([]byte, error) {
	if w.next >= len(w.in) {
		return nil, vErrEnd
	}
	b := w.in[w.next]
	w.next++
	return b, nil
}

func (w *vWire) send(ctx context.Context, b []byte) error {
	w.out = append(w.out, b)
	return nil
}

func vConn(n uint8, w *vWire) *GoBackNConn {
	cfg := newConfig(w.send, w.recv, n)
	g := newGoBackNConn(context.Background(), cfg, "verif")
	// the receive loop needs its tickers; keep-alive is off (never fire)
	g.pingTicker = NewIntervalAwareForceTicker(math.MaxInt64)
	g.pongTicker = NewIntervalAwareForceTicker(math.MaxInt64)
	g.resendTicker = newNeverTicker()
	// a concrete receive buffer: its capacity only matters for blocking
	g.recvDataChan = make(chan *PacketData, 4)
	return g
}

// VH_C01_RecvStep (obligation O1): one iteration of the real receive loop from
// an arbitrary receiver state, for a DATA packet that the channel invariant
// allows in flight (ghost index delta relative to the expected packet, in
// [-n, n)), every window size. The payload reaches Recv iff delta == 0,
// unchanged; the acknowledgement sent is ACK(seq) resp. NACK(expected).
func VH_C01_RecvStep() {
	n := vU8("n")
	vAssume(n >= 1 && n <= 254)
	s := int(n) + 1
	recvSeq := vU8("recvSeq")
	vAssume(int(recvSeq) < s)
	delta := vInt("delta")
	vAssume(delta >= -int(n) && delta < int(n))
	seq := int(recvSeq) + delta
	if seq < 0 {
		seq += s
	}
	if seq >= s {
		seq -= s
	}
	plen := vIntRange("plen", 0, vParam("maxlen", 2))
	pkt := &PacketData{Seq: uint8(seq), FinalChunk: vBool("final"), IsPing: vBool("ping"), Payload: vBytes("p", plen)}
	raw, err := pkt.Serialize()
	vAssume(err == nil)
	w := &vWire{in: [][]byte{raw}}
	g := vConn(n, w)
	g.recvSeq = recvSeq
	vReach("recv-step")
	lerr := g.receivePacketsForever()
	vAssert(lerr != nil, "receive loop ended without the scripted transport error")
	accepted := len(g.recvDataChan) == 1
	if delta == 0 {
		want := recvSeq + 1
		if int(want) == s {
			want = 0
		}
		vAssert(g.recvSeq == want, "expected sequence number not advanced by one mod s after an in-order packet")
		vAssert(accepted == !pkt.IsPing, "in-order data packet not delivered exactly once (or ping delivered)")
		if accepted {
			got := <-g.recvDataChan
			vAssert(got.FinalChunk == pkt.FinalChunk && vBytesEq(got.Payload, pkt.Payload), "delivered packet differs from the one sent")
		}
		vAssert(len(w.out) == 1, "in-order packet not answered by exactly one packet")
		if len(w.out) == 1 {
			m, derr := Deserialize(w.out[0])
			a, isAck := m.(*PacketACK)
			vAssert(derr == nil && isAck && a.Seq == pkt.Seq, "in-order packet not acknowledged with ACK(seq)")
		}
	} else {
		vAssert(g.recvSeq == recvSeq, "expected sequence number moved by an out-of-order packet")
		vAssert(!accepted, "out-of-order / duplicate packet delivered to Recv")
		vAssert(len(w.out) == 1, "out-of-order packet not answered by exactly one NACK")
		if len(w.out) == 1 {
			m, derr := Deserialize(w.out[0])
			a, isNack := m.(*PacketNACK)
			vAssert(derr == nil && isNack && a.Seq == recvSeq, "out-of-order packet not answered with NACK(expected)")
		}
	}
}

// VH_C01_RecvSeq (O1 over a short history): `pkts` consecutive DATA packets
// (pings included) that the channel invariant allows in flight, fed to one run
// of the real receive loop from an arbitrary expected sequence number, so that
// the loop's memory between packets (the NACK back-off) is exercised. Against
// a reference receiver: an in-order packet is answered by exactly ACK(seq) and
// advances the expectation; anything else is answered by NACK(expected) or not
// at all, never by an ACK - an acknowledgement for a packet that was not
// accepted lets the sender drop data that was never delivered.
func VH_C01_RecvSeq() {
	n := vU8("n")
	vAssume(n >= 1 && n <= 254)
	s := int(n) + 1
	recvSeq := vU8("recvSeq")
	vAssume(int(recvSeq) < s)
	k := vParam("pkts", 2)
	w := &vWire{}
	seqs := make([]uint8, k)
	pings := make([]bool, k)
	for i := 0; i < k; i++ {
		q := vU8("seq")
		vAssume(int(q) < s)
		seqs[i], pings[i] = q, vBool("ping")
		raw, err := (&PacketData{Seq: q, FinalChunk: true, IsPing: pings[i], Payload: vBytes("p", 1)}).Serialize()
		vAssume(err == nil)
		w.in = append(w.in, raw)
	}
	g := vConn(n, w)
	g.recvSeq = recvSeq
	vReach("recv-seq")
	lerr := g.receivePacketsForever()
	vAssert(lerr != nil, "receive loop ended without the scripted transport error")
	// replay the outputs against the reference
	exp := recvSeq
	o := 0
	delivered := 0
	for i := 0; i < k; i++ {
		if seqs[i] == exp {
			vAssert(o < len(w.out), "in-order packet not acknowledged")
			if o >= len(w.out) {
				return
			}
			m, derr := Deserialize(w.out[o])
			a, isAck := m.(*PacketACK)
			vAssert(derr == nil && isAck && a.Seq == seqs[i], "in-order packet not answered with ACK(seq)")
			o++
			if !pings[i] {
				delivered++
			}
			exp++
			if int(exp) == s {
				exp = 0
			}
			continue
		}
		// out of order or duplicate: at most one answer, and only NACK(expected)
		if o < len(w.out) {
			m, derr := Deserialize(w.out[o])
			if a, isNack := m.(*PacketNACK); derr == nil && isNack {
				vAssert(a.Seq == exp, "out-of-order packet answered with a NACK for another sequence number")
				o++
			}
		}
	}
	vAssert(o == len(w.out), "the receiver sent an answer the packets do not call for (an ACK for a packet it did not accept, or a surplus packet)")
	vAssert(g.recvSeq == exp, "expected sequence number differs from the reference receiver's")
	vAssert(len(g.recvDataChan) == delivered, "number of delivered packets differs from the reference receiver's")
}

// VH_C01_AckGhost (O2): in ghost terms. The sender has tau outstanding packets,
// the receiver has accepted rho <= tau of them; an ACK in flight acknowledges
// ghost index alpha in [-1, rho). After processACK the base offset is exactly
// max(0, alpha+1): never past a packet the receiver has not accepted, never
// backwards.
func VH_C01_AckGhost() {
	q, _ := vQueue()
	s := int(q.cfg.s)
	b0 := q.sequenceBase
	tau := int(q.size())
	rho := vInt("rho")
	vAssume(rho >= 0 && rho <= tau)
	alpha := vInt("alpha")
	vAssume(alpha >= -1 && alpha < rho)
	seq := int(b0) + alpha
	if seq < 0 {
		seq += s
	}
	if seq >= s {
		seq -= s
	}
	vReach("ack-ghost")
	q.processACK(uint8(seq))
	off := int(q.sequenceBase) - int(b0)
	if off < 0 {
		off += s
	}
	want := alpha + 1
	vAssert(off == want, "processACK: base offset is not max(0, alpha+1)")
	vAssert(off <= rho, "processACK released a packet the receiver has not accepted")
}

// VH_C01_NackGhost (O3): a NACK in flight announces nu in [0, rho].
func VH_C01_NackGhost() {
	q, _ := vQueue()
	s := int(q.cfg.s)
	b0 := q.sequenceBase
	tau := int(q.size())
	rho := vInt("rho")
	vAssume(rho >= 0 && rho <= tau)
	nu := vInt("nu")
	vAssume(nu >= 0 && nu <= rho)
	seq := int(b0) + nu
	if seq >= s {
		seq -= s
	}
	vReach("nack-ghost")
	q.processNACK(uint8(seq))
	off := int(q.sequenceBase) - int(b0)
	if off < 0 {
		off += s
	}
	vAssert(off == nu, "processNACK: base offset is not the announced value")
}

// VH_C01_Resend (O5): the transmission loop of resend puts exactly the
// outstanding packets on the wire, in order, each from its own slot (concrete
// small sequence spaces, symbolic base/top).
func VH_C01_Resend() {
	n := uint8(vIntRange("n", 1, vParam("maxn", 4)))
	s := n + 1
	var sent []*PacketData
	q := newQueue(&queueCfg{s: s, sendPkt: func(p *PacketData) error { sent = append(sent, p); return nil }}, NewTimeOutManager(nil))
	base := vU8("base")
	vAssume(base < s)
	q.sequenceBase, q.sequenceTop = base, base
	k := vIntRange("outstanding", 0, int(n))
	for i := 0; i < k; i++ {
		q.addPacket(&PacketData{Payload: []byte{byte(i)}})
	}
	vAssert(int(q.size()) == k, "size() is not the number of packets added")
	vReach("resend")
	err := q.resend()
	vAssert(err == nil, "resend failed")
	vAssert(len(sent) == k, "resend did not transmit exactly the outstanding packets")
	for i := 0; i < len(sent) && i < k; i++ {
		want := int(base) + i
		if want >= int(s) {
			want -= int(s)
		}
		vAssert(int(sent[i].Seq) == want, "resend: wrong sequence number / order")
		vAssert(len(sent[i].Payload) == 1 && sent[i].Payload[0] == byte(i), "resend: packet taken from the wrong slot")
	}
}
