//go:build verif

package gbn

import "time"

// vPipe joins a's sendDataChan to b's recvDataChan with a buffered channel so
// that the real Send and Recv run back to back without the connection loops.
func vPipe(chunk int) (a, b *GoBackNConn, ch chan *PacketData) {
	ch = make(chan *PacketData, 64)
	a = &GoBackNConn{cfg: &config{}, sendDataChan: ch, quit: make(chan struct{}), timeoutManager: NewTimeOutManager(nil)}
	WithMaxSendSize(chunk)(a.cfg)
	b = &GoBackNConn{cfg: &config{}, recvDataChan: ch, quit: make(chan struct{}), timeoutManager: NewTimeOutManager(nil)}
	return
}

// VH_C14_Small: every payload length 0..maxlen x every maxChunkSize 0..maxchunk,
// contents symbolic, two consecutive messages: one Recv result per Send, equal
// bytes, nothing left over.
func VH_C14_Small() {
	maxL, maxM := vParam("maxlen", 4), vParam("maxchunk", 5)
	m := vIntRange("chunk", 0, maxM)
	a, b, ch := vPipe(m)
	for i := 0; i < 2; i++ {
		l := vIntRange("len", 0, maxL)
		data := vBytes("d", l)
		before := len(ch)
		err := a.Send(data)
		vAssert(err == nil, "Send failed")
		want := 1
		if m > 0 && l > m {
			want = (l + m - 1) / m
		}
		vAssert(len(ch)-before >= 1, "successful Send put no packet on the wire (message lost)")
		if len(ch)-before < 1 {
			return
		}
		vAssert(len(ch)-before == want, "Send produced an unexpected number of chunks")
		vReach("sent")
		got, err := b.Recv()
		vAssert(err == nil, "Recv failed")
		vAssert(vBytesEq(got, data), "Recv returned different bytes than were sent")
		vAssert(len(ch) == 0, "chunks of one message left in the pipe after Recv (message split)")
	}
}

// VH_C14_Chunks: each chunk is at most maxChunkSize bytes and only the last
// one carries FinalChunk.
func VH_C14_Chunks() {
	maxL, maxM := vParam("maxlen", 6), vParam("maxchunk", 4)
	m := vIntRange("chunk", 1, maxM)
	l := vIntRange("len", 1, maxL)
	a, _, ch := vPipe(m)
	data := vBytes("d", l)
	vAssert(a.Send(data) == nil, "Send failed")
	n := len(ch)
	vReach("chunks")
	off := 0
	for i := 0; i < n; i++ {
		p := <-ch
		vAssert(len(p.Payload) <= m && len(p.Payload) > 0, "chunk larger than maxChunkSize or empty")
		vAssert(p.FinalChunk == (i == n-1), "FinalChunk flag on the wrong chunk")
		vAssert(!p.IsPing, "data chunk marked as ping")
		vAssert(off+len(p.Payload) <= l && vBytesEq(p.Payload, data[off:off+len(p.Payload)]), "chunk bytes differ from the payload")
		off += len(p.Payload)
	}
	vAssert(off == l, "chunks do not add up to the payload")
}

// VH_C14_RecvDeadline: the receive deadline expires inside a message (after k
// of the chunks have been consumed); the timed-out Recv is retried. The retry
// must return the whole message.
func VH_C14_RecvDeadline() {
	l := vIntRange("len", 2, vParam("maxlen", 4))
	gap := vIntRange("gap_ms", 1, 3)      // producer pause between chunks
	tout := vIntRange("timeout_ms", 1, 4) // receive timeout
	_, b, ch := vPipe(1)
	data := vBytes("d", l)
	b.SetRecvTimeout(time.Duration(tout) * time.Millisecond)
	go func() {
		for i := 0; i < l; i++ {
			ch <- &PacketData{Payload: data[i : i+1], FinalChunk: i == l-1}
			time.Sleep(time.Duration(gap) * time.Millisecond)
		}
	}()
	var got []byte
	var err error
	tries := 0
	clearAfter := vIntRange("deadline_cleared_after_timeouts", 0, 2)
	for tries = 0; tries < 16; tries++ {
		got, err = b.Recv()
		if err == nil {
			break
		}
		vAssert(err == errRecvTimeout, "Recv failed with something else than a timeout")
		// the application may change or clear its deadline while the
		// message is half received (SetReadDeadline(time.Time{}) after a
		// handshake does exactly that): the chunks consumed so far still
		// belong to the message
		if clearAfter > 0 && tries+1 == clearAfter {
			if vBool("clear_to_default") {
				b.SetRecvTimeout(DefaultRecvTimeout)
			} else {
				b.SetRecvTimeout(time.Hour)
			}
		}
	}
	vReach("deadline")
	vAssert(err == nil, "Recv never succeeded")
	vAssert(vBytesEq(got, data), "retried Recv lost the chunks consumed by the timed-out call")
	// the next message is not affected by what happened inside the previous one
	next := vBytes("next", 2)
	b.SetRecvTimeout(time.Hour)
	go func() {
		ch <- &PacketData{Payload: next[0:1]}
		ch <- &PacketData{Payload: next[1:2], FinalChunk: true}
	}()
	got2, err := b.Recv()
	vAssert(err == nil && vBytesEq(got2, next), "the message after a retried Recv is merged with leftovers of the previous one")
}

// VH_C14_SendDeadline: the send deadline expires inside a message (the pipe
// accepts k chunks, then stalls until after the timeout); the timed-out Send is
// retried. The peer must see exactly the messages whose Send succeeded.
func VH_C14_SendDeadline() {
	l := vIntRange("len", 2, vParam("maxlen", 3))
	k := vIntRange("accepted", 1, l-1)
	ch := make(chan *PacketData, k) // room for k chunks only
	a := &GoBackNConn{cfg: &config{maxChunkSize: 1}, sendDataChan: ch, quit: make(chan struct{}), timeoutManager: NewTimeOutManager(nil)}
	b := &GoBackNConn{cfg: &config{}, recvDataChan: ch, quit: make(chan struct{}), timeoutManager: NewTimeOutManager(nil)}
	data := vBytes("d", l)
	a.SetSendTimeout(time.Millisecond)
	err := a.Send(data) // k chunks fit, then the timer fires
	vAssert(err == errSendTimeout, "Send did not time out on a stalled pipe")
	if err == nil {
		return
	}
	// the peer starts reading; the application retries the message
	done := make(chan []byte, 4)
	go func() {
		for {
			m, err := b.Recv()
			if err != nil {
				return
			}
			done <- m
		}
	}()
	a.SetSendTimeout(time.Hour)
	vAssert(a.Send(data) == nil, "retried Send failed")
	vReach("send-deadline")
	got := <-done
	vAssert(vBytesEq(got, data), "peer received a message that no successful Send carried (partial chunks of the timed-out Send merged in)")
	close(b.quit)
}

// VH_C14_Large: symbolic payload length and symbolic chunk size (length at
// most `maxchunks` chunks): the number of packets is max(1, ceil(L/M)), each
// at most M bytes, only the last one final, and the single Recv result has
// the same length and the same byte at every index.
func VH_C14_Large() {
	l, m := vInt("len"), vInt("chunk")
	k := vParam("maxchunks", 3)
	vAssume(m >= 1 && m <= 1<<20 && l >= 0 && l <= k*m)
	a, b, ch := vPipe(m)
	data := vStream("d", l)
	vAssert(a.Send(data) == nil, "Send failed")
	n := len(ch)
	vReach("large-sent")
	want := 1
	if l > m {
		want = (l + m - 1) / m
	}
	vAssert(n == want, "number of packets is not max(1, ceil(len/chunk))")
	got, err := b.Recv()
	vAssert(err == nil && len(got) == l, "Recv failed or returned a different length")
	vAssert(len(ch) == 0, "chunks left over after Recv")
	j := vInt("j")
	if err == nil && j >= 0 && j < l && j < len(got) {
		vAssert(got[j] == data[j], "Recv returned different bytes than were sent")
	}
}

// VH_C14_NoChunking: no maximum chunk size configured (as in the mailbox
// transport): for a payload of any length up to 4 MiB the single Recv result
// has the same length and the same byte at every index; a second message
// stays separate.
func VH_C14_NoChunking() {
	l := vInt("len")
	vAssume(l >= 0 && l <= 4<<20)
	a, b, ch := vPipe(0)
	data := vStream("d", l)
	vAssert(a.Send(data) == nil, "Send failed")
	vReach("nochunk-sent")
	_ = ch // how many packets carry it is the sender's business
	next := vBytes("next", 1)
	vAssert(a.Send(next) == nil, "second Send failed")
	got, err := b.Recv()
	vAssert(err == nil && len(got) == l, "Recv failed or returned a different length (messages merged or split)")
	j := vInt("j")
	if err == nil && j >= 0 && j < l && j < len(got) {
		vAssert(got[j] == data[j], "Recv returned different bytes than were sent")
	}
	got2, err := b.Recv()
	vAssert(err == nil && vBytesEq(got2, next), "the following message did not arrive as a message of its own")
}

// VH_C14_HugeChunk: "every configured maximum chunk size" includes sizes up
// to the largest int (a way of saying "never split"): chunk size symbolic in
// [2^20, MaxInt], payload of symbolic length up to 4 MiB and not above the
// chunk size: exactly one packet, the Recv result equals the payload, and a
// following message stays a message of its own. Arithmetic on the chunk size
// that wraps (rounding up to a chunk count, for instance) shows here.
func VH_C14_HugeChunk() {
	l, m := vInt("len"), vInt("chunk")
	vAssume(m >= 1<<20 && m <= 1<<63-1 && l >= 0 && l <= 4<<20 && l <= m)
	a, b, ch := vPipe(m)
	data := vStream("d", l)
	vAssert(a.Send(data) == nil, "Send failed")
	vReach("huge-sent")
	vAssert(len(ch) == 1, "a payload not above the chunk size was not sent as exactly one packet")
	next := vBytes("next", 2)
	vAssert(a.Send(next) == nil, "second Send failed")
	got, err := b.Recv()
	vAssert(err == nil && len(got) == l, "Recv failed or returned a different length (message dropped, merged or split)")
	j := vInt("j")
	if err == nil && j >= 0 && j < l && j < len(got) {
		vAssert(got[j] == data[j], "Recv returned different bytes than were sent")
	}
	got2, err := b.Recv()
	vAssert(err == nil && vBytesEq(got2, next), "the following message did not arrive as a message of its own")
}

// VH_C14_ZeroTimeout: polling with a receive timeout that has already expired
// when Recv starts (SetRecvTimeout(0) or a negative value - what a read
// deadline in the past turns into) while a complete message is queued. Such a
// Recv may return the message or a timeout (both the data and the expired
// timer are ready; the run explores either choice at every select within the
// deviation budget). Whatever the polls returned, the messages come out one
// by one, complete and in order.
func VH_C14_ZeroTimeout() {
	l := vIntRange("len", 1, 2)
	_, b, ch := vPipe(1)
	msgs := [2][]byte{vBytes("m0", l), vBytes("m1", 1)}
	go func() {
		for _, m := range msgs {
			for i := range m {
				ch <- &PacketData{Payload: m[i : i+1], FinalChunk: i == len(m)-1}
			}
		}
	}()
	time.Sleep(time.Millisecond) // everything is queued (as far as the buffer goes)
	b.SetRecvTimeout(-time.Duration(vIntRange("neg_ms", 0, 1)) * time.Millisecond)
	var out [][]byte
	for polls := 0; polls < 3 && len(out) < 2; polls++ {
		m, err := b.Recv()
		if err != nil {
			vAssert(err == errRecvTimeout, "Recv failed with something else than a timeout")
			continue
		}
		out = append(out, m)
	}
	b.SetRecvTimeout(2 * time.Second)
	for len(out) < 2 {
		m, err := b.Recv()
		vAssert(err == nil, "Recv failed although data is queued and the timeout is two seconds (a message was merged into its predecessor or lost)")
		if err != nil {
			return
		}
		out = append(out, m)
	}
	vReach("zero-timeout")
	vAssert(vBytesEq(out[0], msgs[0]), "first message altered, merged or split by polling with an expired timeout")
	vAssert(vBytesEq(out[1], msgs[1]), "second message altered, merged or split by polling with an expired timeout")
}

// VH_C14_SendDeadlineNone: the send deadline expires before the send loop has
// taken even the first chunk (window full, or the loop busy in a stalled
// transport write): that Send fails and has put nothing on the wire. The next
// Send then produces exactly one Recv result - its own message - and nothing
// before it (no terminator or left-over of the message that was never begun).
func VH_C14_SendDeadlineNone() {
	l := vIntRange("len", 1, vParam("maxlen", 3))
	ch := make(chan *PacketData) // unbuffered and nobody reads: no chunk is accepted
	a := &GoBackNConn{cfg: &config{maxChunkSize: 1}, sendDataChan: ch, quit: make(chan struct{}), timeoutManager: NewTimeOutManager(nil)}
	b := &GoBackNConn{cfg: &config{}, recvDataChan: ch, quit: make(chan struct{}), timeoutManager: NewTimeOutManager(nil)}
	a.SetSendTimeout(time.Millisecond)
	err := a.Send(vBytes("lost", l))
	vAssert(err == errSendTimeout, "Send did not time out although nobody takes packets")
	if err == nil {
		return
	}
	done := make(chan []byte, 4)
	go func() {
		for {
			m, err := b.Recv()
			if err != nil {
				return
			}
			done <- m
		}
	}()
	a.SetSendTimeout(time.Hour)
	data := vBytes("d", 2)
	vAssert(a.Send(data) == nil, "Send after a timed-out Send failed")
	vReach("send-deadline-none")
	got := <-done
	vAssert(vBytesEq(got, data), "after a Send that timed out before its first chunk, the next message is preceded by a Recv result no Send produced")
	close(b.quit)
}
