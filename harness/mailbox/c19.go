//go:build verif

package mailbox

func vBytesEq(a, b []byte) bool {
	if len(a) != len(b) {
		return false
	}
	eq := true
	for i := range a {
		eq = eq && a[i] == b[i]
	}
	return eq
}

// VH_C19_MsgData_RT: MsgData round-trips for every version byte and payloads
// of length 0..maxlen (symbolic contents).
func VH_C19_MsgData_RT() {
	n := vIntRange("plen", 0, vParam("maxlen", 8))
	m := NewMsgData(vU8("version"), vBytes("p", n))
	b, err := m.Serialize()
	vAssert(err == nil, "Serialize failed")
	vReach("roundtrip")
	var m2 MsgData
	err = m2.Deserialize(b)
	vAssert(err == nil, "own serialisation does not deserialise")
	if err == nil {
		vAssert(m2.ProtocolVersion() == m.ProtocolVersion() && vBytesEq(m2.Payload, m.Payload), "Deserialize(Serialize(m)) != m")
	}
}

// VH_C19_MsgData_Canon: any bytes (length 0..maxlen) that deserialise
// re-serialise to a message that deserialises to the same value; never a panic
// (this is also the C07 obligation for the control-message framing: the 32-bit
// length field takes every value).
func VH_C19_MsgData_Canon() {
	n := vIntRange("len", 0, vParam("maxlen", 10))
	b := vBytes("b", n)
	var m MsgData
	err := m.Deserialize(b)
	if err != nil {
		vReach("rejected")
		return
	}
	vReach("canon")
	b2, err := m.Serialize()
	vAssert(err == nil, "Serialize of a deserialised message failed")
	var m3 MsgData
	err = m3.Deserialize(b2)
	vAssert(err == nil, "re-serialisation does not deserialise")
	if err == nil {
		vAssert(m3.version == m.version && vBytesEq(m3.Payload, m.Payload), "re-serialised message decodes to a different value")
	}
}

// VH_C19_MsgData_Large: MsgData round trip with a payload of symbolic length.
func VH_C19_MsgData_Large() {
	l := vInt("plen")
	vAssume(l >= 0 && l <= 100000)
	p := vStream("p", l)
	m := NewMsgData(vU8("version"), p)
	b, err := m.Serialize()
	vAssert(err == nil && len(b) == l+5, "Serialize failed or produced a wrong length")
	vReach("large-roundtrip")
	var m2 MsgData
	err = m2.Deserialize(b)
	vAssert(err == nil && m2.version == m.version && len(m2.Payload) == l, "version or payload length changed in the round trip")
	j := vInt("j")
	if err == nil && j >= 0 && j < l && j < len(m2.Payload) {
		vAssert(m2.Payload[j] == p[j], "payload bytes changed in the round trip")
	}
}
