//go:build verif && goexperiment.synctest

package mailbox

import "testing/synctest"

// vQuiesce natively: wait until every goroutine of the bubble is durably blocked.
func vQuiesce() {
	if vSynctest {
		synctest.Wait()
	}
}
