//go:build verif

package mailbox

import (
	"io"
	"time"

	"github.com/btcsuite/btcd/btcec/v2"
	"github.com/lightningnetwork/lnd/keychain"
)

// vHalf is one direction of an in-memory duplex connection. Every Write is
// one message (the handshake writes one buffer per act); the relay may rewrite
// each message before the reader sees it.
type vHalf struct {
	ch      chan []byte
	closed  chan struct{}
	pending []byte
	relay   func(msgIndex int, b []byte) []byte
	msgs    int
	// short reads: after `fragSkip` multi-byte Reads, the next `fragBudget`
	// Reads return only 1, 7 or len-1 bytes (case split); fragAll > 0: every
	// Read returns at most fragAll bytes
	fragSkip, fragBudget, fragAll int
	written                       int
}

func newHalf() *vHalf { return &vHalf{ch: make(chan []byte, 8), closed: make(chan struct{})} }

func (h *vHalf) Write(p []byte) (int, error) {
	h.written += len(p)
	b := make([]byte, len(p))
	copy(b, p)
	h.ch <- b
	return len(p), nil
}

func (h *vHalf) Read(p []byte) (int, error) {
	if len(h.pending) == 0 {
		select {
		case b := <-h.ch:
			if h.relay != nil {
				b = h.relay(h.msgs, b)
			}
			h.msgs++
			h.pending = b
		case <-h.closed:
			return 0, io.EOF
		case <-time.After(handshakeReadTimeout):
			// the callers of DoHandshake arm this read deadline on the real conn
			return 0, vErrTimeout
		}
	}
	q := p
	if h.fragAll > 0 && len(p) > h.fragAll {
		q = p[:h.fragAll]
	} else if len(p) > 1 && len(h.pending) > 1 {
		if h.fragSkip > 0 {
			h.fragSkip--
		} else if h.fragBudget > 0 {
			h.fragBudget--
			k := [3]int{1, 7, len(p) - 1}[vIntRange("frag", 0, 2)]
			if k < len(p) {
				q = p[:k]
			}
		}
	}
	n := copy(q, h.pending)
	h.pending = h.pending[n:]
	return n, nil
}

// vEnd is one endpoint's view of the duplex connection.
type vEnd struct {
	r, w *vHalf
}

func (e *vEnd) Read(p []byte) (int, error)  { return e.r.Read(p) }
func (e *vEnd) Write(p []byte) (int, error) { return e.w.Write(p) }

type vParty struct {
	m           *Machine
	cd          *ConnData
	priv        *btcec.PrivateKey
	err         error
	done        bool
	gotRemote   *btcec.PublicKey
	remoteCalls int
	gotAuth     []byte
	authCalls   int
}

type vHS struct {
	cli, srv *vParty
	c2s, s2c *vHalf
}

type vHSConfig struct {
	kk                     bool
	cMin, cMax, sMin, sMax byte
	cliPW, srvPW           []byte
	auth                   []byte
	// KK: the static key each side expects of the other (nil: the true one)
	cliExpects, srvExpects *btcec.PublicKey
}

func vNewParty(initiator bool, priv *btcec.PrivateKey, remote *btcec.PublicKey, pw, auth []byte, min, max byte) (*vParty, error) {
	return vNewPartyECDH(initiator, priv, &keychain.PrivKeyECDH{PrivKey: priv}, remote, pw, auth, min, max)
}

// vImpostorECDH presents the public key `claimed` as its static key but can
// only compute Diffie-Hellman results with its own, different private key.
type vImpostorECDH struct {
	claimed *btcec.PublicKey
	own     *keychain.PrivKeyECDH
}

func (v *vImpostorECDH) PubKey() *btcec.PublicKey { return v.claimed }

func (v *vImpostorECDH) ECDH(pub *btcec.PublicKey) ([32]byte, error) { return v.own.ECDH(pub) }

func vNewPartyECDH(initiator bool, priv *btcec.PrivateKey, ecdh keychain.SingleKeyECDH, remote *btcec.PublicKey, pw, auth []byte, min, max byte) (*vParty, error) {
	p := &vParty{priv: priv}
	p.cd = NewConnData(ecdh, remote, pw, auth,
		func(k *btcec.PublicKey) error { p.gotRemote = k; p.remoteCalls++; return nil },
		func(d []byte) error { p.gotAuth = d; p.authCalls++; return nil })
	m, err := NewBrontideMachine(&BrontideMachineConfig{
		Initiator: initiator, HandshakePattern: p.cd.HandshakePattern(), ConnData: p.cd,
		MinHandshakeVersion: min, MaxHandshakeVersion: max,
	})
	p.m = m
	return p, err
}

// vRunHandshake runs the real DoHandshake of both parties concurrently over
// the duplex connection and waits for both to return.
func vRunHandshake(hs *vHS) {
	done := make(chan struct{}, 2)
	run := func(p *vParty, e *vEnd, peerIn *vHalf) {
		p.err = p.m.DoHandshake(e)
		p.done = true
		if p.err != nil {
			// a party that gives up closes its side so that the peer's read fails
			close(peerIn.closed)
		}
		done <- struct{}{}
	}
	go run(hs.cli, &vEnd{r: hs.s2c, w: hs.c2s}, hs.c2s)
	go run(hs.srv, &vEnd{r: hs.c2s, w: hs.s2c}, hs.s2c)
	<-done
	<-done
}

func vSetup(cfg *vHSConfig) (*vHS, bool) {
	hs := &vHS{c2s: newHalf(), s2c: newHalf()}
	ck, sk := vPrivKey("cli_static"), vPrivKey("srv_static")
	vAssume(!vSamePrivKey(ck, sk))
	var cRemote, sRemote *btcec.PublicKey
	if cfg.kk {
		cRemote, sRemote = sk.PubKey(), ck.PubKey()
		if cfg.cliExpects != nil {
			cRemote = cfg.cliExpects
		}
		if cfg.srvExpects != nil {
			sRemote = cfg.srvExpects
		}
	}
	var err1, err2 error
	hs.cli, err1 = vNewParty(true, ck, cRemote, cfg.cliPW, nil, cfg.cMin, cfg.cMax)
	hs.srv, err2 = vNewParty(false, sk, sRemote, cfg.srvPW, cfg.auth, cfg.sMin, cfg.sMax)
	return hs, err1 == nil && err2 == nil
}

// vAgree: the C04 agreement predicate for two parties that both completed.
func vAgree(hs *vHS, auth []byte) {
	c, s := hs.cli.m, hs.srv.m
	vAssert(c.version == s.version, "both completed with different negotiated versions")
	vAssert(vIdealEq(c.sendCipher.secretKey[:], s.recvCipher.secretKey[:]) && vIdealEq(c.recvCipher.secretKey[:], s.sendCipher.secretKey[:]),
		"both completed but traffic keys are not complementary")
	vAssert(vIdealEq(c.sendCipher.salt[:], s.recvCipher.salt[:]) && vIdealEq(s.sendCipher.salt[:], c.recvCipher.salt[:]), "both completed with different rotation salts")
	vAssert(c.remoteStatic != nil && s.remoteStatic != nil, "completed without a remote static key")
	if c.remoteStatic != nil && s.remoteStatic != nil {
		vAssert(vSamePubKey(c.remoteStatic, hs.srv.priv.PubKey()), "initiator holds a static key that is not the responder's")
		vAssert(vSamePubKey(s.remoteStatic, hs.cli.priv.PubKey()), "responder holds a static key that is not the initiator's")
	}
	vAssert(vBytesEq(c.receivedPayload, auth), "initiator's auth payload differs from what the responder sent")
	vAssert(hs.cli.authCalls == 1 && vBytesEq(hs.cli.gotAuth, auth), "auth payload callback not called exactly once with the responder's payload")
	vAssert(hs.srv.authCalls == 0, "responder's auth callback called")
	// both sides move to the key-based rendezvous together (or neither)
	vAssert((hs.cli.cd.RemoteKey() != nil) == (hs.srv.cd.RemoteKey() != nil), "only one side stored the peer's static key (rendezvous diverges)")
	vAssert(hs.cli.remoteCalls == hs.srv.remoteCalls, "remote-static callback called on one side only")
}
