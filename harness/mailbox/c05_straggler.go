//go:build verif

package mailbox

import (
	"context"

	"github.com/lightningnetwork/lnd/keychain"
)

// VH_C05_Straggler: the credentials object of a party (NoiseGrpcConn) is at
// the same time the net.Conn of every connection it has secured. After a
// first connection that worked, the relay breaks the streams; the party under
// test starts the handshake on its next mailbox connection with the very same
// object, but the relay holds back whatever the peer sends, so that handshake
// runs into its read deadline and fails. A write of the transport that still
// owns the object from the first connection (gRPC's writer of the old http2
// transport) then goes through. It must fail with an error (the connection
// fails visibly) or put ciphertext on the relay - it must neither crash the
// process nor hand the relay application bytes in the clear.
func VH_C05_Straggler() {
	pw := vBytes("pw", 14)
	pw2 := make([]byte, 14)
	copy(pw2, pw)
	auth := vBytes("auth", 9)
	sk, ck := vPrivKey("srv_static"), vPrivKey("cli_static")
	vAssume(!vSamePrivKey(sk, ck))
	srvNoise := NewNoiseGrpcConn(NewConnData(&keychain.PrivKeyECDH{PrivKey: sk}, nil, pw, auth, nil, nil))
	cliNoise := NewNoiseGrpcConn(NewConnData(&keychain.PrivKeyECDH{PrivKey: ck}, nil, pw2, nil, nil, nil))

	c2s, s2c := newHalf(), newHalf()
	done := make(chan error, 1)
	go func() {
		_, _, err := srvNoise.ServerHandshake(vProxyEnd{&vEnd{r: c2s, w: s2c}})
		done <- err
	}()
	_, _, cerr := cliNoise.ClientHandshake(context.Background(), "", vProxyEnd{&vEnd{r: s2c, w: c2s}})
	serr := <-done
	vAssert(cerr == nil && serr == nil, "first handshake failed")
	if cerr != nil || serr != nil {
		return
	}
	first := vBytes("first", 9)
	wr := make(chan error, 1)
	go func() { _, err := cliNoise.Write(first); wr <- err }()
	buf := make([]byte, 16)
	n, err := srvNoise.Read(buf)
	vAssert(err == nil && <-wr == nil && n == 9 && vBytesEq(buf[:n], first), "first connection does not carry data")

	// the next connection of the party under test: the peer's handshake
	// messages never arrive
	serverSide := vBool("server_side")
	in, out := newHalf(), newHalf()
	var herr error
	var under *NoiseGrpcConn
	if serverSide {
		under = srvNoise
		_, _, herr = srvNoise.ServerHandshake(vProxyEnd{&vEnd{r: in, w: out}})
	} else {
		under = cliNoise
		_, _, herr = cliNoise.ClientHandshake(context.Background(), "", vProxyEnd{&vEnd{r: in, w: out}})
	}
	vAssert(herr != nil, "handshake completed although the peer's messages never arrived")
	if herr != nil {
		vReach("rehandshake-timed-out")
	}

	// the straggling read (the old transport's reader finds bytes of the new
	// mailbox connection) and the straggling write
	second := vBytes("second", 12)
	if vBool("straggler_reads") {
		in.ch <- vBytes("junk", 18)
		rn, rerr := under.Read(make([]byte, 32))
		vReach("straggler-read")
		vAssert(rerr != nil && rn == 0, "a read on the shared connection object after a failed re-handshake returned data")
	}
	_, werr := under.Write(second)
	vReach("straggler")
	seen := func(h *vHalf) {
		for {
			select {
			case m := <-h.ch:
				vAssert(!vMentions(m, second) && !vMentions(m, first) && !vMentions(m, auth), "a write on the shared connection object after a failed re-handshake put application bytes on the relay in the clear")
			default:
				return
			}
		}
	}
	seen(out)
	seen(c2s)
	seen(s2c)
	_ = werr
}
