//go:build verif

package mailbox

// vCipherPair: the sending and the receiving cipherState of one direction,
// as the real split() produced them on the two parties (symbolic chaining
// key), moved to the same symbolic nonce in [0, 999].
func vCipherPair() (s, r *cipherState) {
	ini, rsp := vMachines()
	s, r = &ini.sendCipher, &rsp.recvCipher
	if vBool("responder_to_initiator") {
		s, r = &rsp.sendCipher, &ini.recvCipher
	}
	n := vU64("nonce")
	vAssume(n < keyRotationInterval)
	s.nonce, r.nonce = n, n
	return
}

// VH_C08_LockStep: one Encrypt on the sender and one Decrypt on the receiver
// from any lock-step state (including nonce 999: rotation on both sides):
// the plaintext comes back, both sides stay in lock-step, the nonce advances.
func VH_C08_LockStep() {
	s, r := vCipherPair()
	n0 := s.nonce
	key0, salt0 := s.secretKey, s.salt
	l := vIntRange("len", 0, vParam("maxlen", 3))
	p := vBytes("p", l)
	ct := s.Encrypt(nil, nil, p)
	vAssert(len(ct) == l+16, "ciphertext is not plaintext length plus MAC")
	pt, err := r.Decrypt(nil, nil, ct)
	vReach("lockstep")
	vAssert(err == nil, "receiver in lock-step cannot decrypt")
	if err == nil {
		vAssert(vBytesEq(pt, p), "decrypted bytes differ from the plaintext")
	}
	vAssert(s.nonce == r.nonce, "nonces diverged")
	vAssert(vIdealEq(s.secretKey[:], r.secretKey[:]) && vIdealEq(s.salt[:], r.salt[:]), "keys diverged (rotation not in lock-step)")
	if n0 == keyRotationInterval-1 {
		vReach("rotation")
		vAssert(s.nonce == 0, "nonce not reset at the rotation boundary")
	} else {
		vAssert(s.nonce == n0+1, "nonce not advanced by one")
	}
	// the AEAD instance in use is the one of the current key: a fresh state
	// initialised from the key/salt/nonce fields encrypts identically
	fresh := &cipherState{}
	fresh.InitializeKeyWithSalt(s.salt, s.secretKey)
	fresh.nonce = s.nonce
	probe := vBytes("probe", 1)
	sc := *s // Encrypt advances the nonce: probe on copies
	fc := *fresh
	vAssert(vIdealEq(sc.Encrypt(nil, nil, probe), fc.Encrypt(nil, nil, probe)), "the cipher in use is not the one of the current key (key fields and AEAD instance out of sync)")
	rcopy := *r
	fr := &cipherState{}
	fr.InitializeKeyWithSalt(r.salt, r.secretKey)
	fr.nonce = r.nonce
	vAssert(vIdealEq(rcopy.Encrypt(nil, nil, probe), fr.Encrypt(nil, nil, probe)), "the receiver's cipher is not the one of its current key")
	if n0 == keyRotationInterval-1 {
		// a new epoch starts at nonce 0 under a new key: nothing of the old epoch repeats
		old := &cipherState{}
		old.InitializeKeyWithSalt(salt0, key0)
		sc2 := *s
		vAssert(!vIdealEq(sc2.Encrypt(nil, nil, probe), old.Encrypt(nil, nil, probe)), "after the rotation the old key is still in use (key/nonce pairs of the previous epoch repeat)")
	}
	// the (key, nonce) pair just used is never used again: an equal plaintext
	// encrypted next gives a different ciphertext
	ct2 := s.Encrypt(nil, nil, p)
	vAssert(!vIdealEq(ct, ct2), "equal plaintexts produced equal ciphertexts (key/nonce pair reused)")
	// and the receiver follows
	pt2, err := r.Decrypt(nil, nil, ct2)
	vAssert(err == nil && vBytesEq(pt2, p), "second record does not decrypt")
	// a replay of the first ciphertext is rejected
	_, err = r.Decrypt(nil, nil, ct)
	vAssert(err != nil, "replayed ciphertext accepted")
}

// VH_C08_Frame: the two directions are disjoint objects: traffic in one
// direction leaves the other direction's state untouched, so interleavings of
// the two directions are irrelevant.
func VH_C08_Frame() {
	ini, rsp := vMachines()
	sn, sk := rsp.sendCipher.nonce, rsp.sendCipher.secretKey
	rn, rk := ini.recvCipher.nonce, ini.recvCipher.secretKey
	p := vBytes("p", 2)
	vAssert(ini.WriteMessage(p) == nil, "WriteMessage failed")
	w := &vPipeConn{out: make([]byte, 0, vParam("wirecap", 100))}
	_, err := ini.Flush(w)
	vAssert(err == nil, "Flush failed")
	m, err := rsp.ReadMessage(&vPipeConn{buf: w.out})
	vReach("frame")
	vAssert(err == nil && vBytesEq(m, p), "record does not arrive")
	vAssert(rsp.sendCipher.nonce == sn && rsp.sendCipher.secretKey == sk, "receiving touched the receiver's send direction")
	vAssert(ini.recvCipher.nonce == rn && ini.recvCipher.secretKey == rk, "sending touched the sender's receive direction")
	vAssert(ini.sendCipher.nonce == 2 && rsp.recvCipher.nonce == 2, "a record does not consume exactly two nonces on each side")
	vAssert(!vIdealEq(ini.sendCipher.secretKey[:], ini.recvCipher.secretKey[:]), "both directions use the same key")
	vAssert(vIdealEq(ini.sendCipher.secretKey[:], rsp.recvCipher.secretKey[:]) && vIdealEq(ini.recvCipher.secretKey[:], rsp.sendCipher.secretKey[:]), "traffic keys are not complementary")
	// base case of the lock-step induction: after split each direction's two
	// ends also hold the same rotation salt (else they diverge at the first rotation)
	vAssert(vIdealEq(ini.sendCipher.salt[:], rsp.recvCipher.salt[:]), "initiator->responder direction: the two ends hold different rotation salts after split")
	vAssert(vIdealEq(rsp.sendCipher.salt[:], ini.recvCipher.salt[:]), "responder->initiator direction: the two ends hold different rotation salts after split")
}

// VH_C08_NoPlaintext: no byte handed to the writer by Flush depends on the
// application plaintext other than through Seal (syntactic provenance of the
// wire bytes), for a record of symbolic length.
func VH_C08_NoPlaintext() {
	ini, _ := vMachines()
	l := vInt("len")
	vAssume(l >= 0 && l <= 65535)
	p := vStream("secret", l)
	vAssert(ini.WriteMessage(p) == nil, "WriteMessage failed")
	w := &vPipeConn{out: make([]byte, 0, vParam("wirecap", 70000))}
	_, err := ini.Flush(w)
	vAssert(err == nil, "Flush failed")
	vReach("provenance")
	vAssert(len(w.out) == l+34, "wire bytes are not header plus body")
	vAssert(!vMentions(w.out, p), "application plaintext appears on the wire")
}

// VH_C08_ManyRecords: concrete-in-engine run over several rotation
// boundaries (translator validation and the "thousands of records" clause:
// the inductive step above covers any count).
func VH_C08_ManyRecords() {
	ini, rsp := vMachines()
	n := vParam("records", 1100)
	p := vBytes("p", 1)
	w := &vPipeConn{out: make([]byte, 0, vParam("wirecap", 64))}
	for i := 0; i < n; i++ {
		w.out = w.out[:0]
		vAssert(ini.WriteMessage(p) == nil, "WriteMessage failed")
		_, err := ini.Flush(w)
		vAssert(err == nil, "Flush failed")
		m, err := rsp.ReadMessage(&vPipeConn{buf: w.out})
		vAssert(err == nil && vBytesEq(m, p), "record does not arrive after key rotations")
		if err != nil {
			return
		}
		// and the other direction, interleaved
		w.out = w.out[:0]
		vAssert(rsp.WriteMessage(p) == nil, "WriteMessage failed")
		_, err = rsp.Flush(w)
		vAssert(err == nil, "Flush failed")
		m, err = ini.ReadMessage(&vPipeConn{buf: w.out})
		vAssert(err == nil && vBytesEq(m, p), "record of the responder->initiator direction does not arrive after key rotations")
		if err != nil {
			return
		}
	}
	vReach("many")
	vAssert(ini.sendCipher.nonce == uint64(2*n)%keyRotationInterval, "nonce is not 2*records mod 1000")
	vAssert(ini.sendCipher.nonce == rsp.recvCipher.nonce, "nonces diverged after many records")
}

// VH_C08_Directions: both directions of one session at symbolic positions of
// their key epochs (each possibly one step before its rotation), one
// encryption and decryption per direction in any of the six interleavings
// (records may cross in flight), then one more round: everything decrypts to
// what was written. Purely behavioural: only Encrypt/Decrypt and the nonce
// counters are used.
func VH_C08_Directions() {
	ini, rsp := vMachines()
	x, y := vU64("nonce_i2r"), vU64("nonce_r2i")
	vAssume(x < keyRotationInterval && y < keyRotationInterval)
	ini.sendCipher.nonce, rsp.recvCipher.nonce = x, x
	rsp.sendCipher.nonce, ini.recvCipher.nonce = y, y
	p, q := vBytes("p", 1), vBytes("q", 1)
	var ctA, ctC []byte
	opA := func() { ctA = ini.sendCipher.Encrypt(nil, nil, p) }
	opB := func() {
		pt, err := rsp.recvCipher.Decrypt(nil, nil, ctA)
		vAssert(err == nil && vBytesEq(pt, p), "initiator->responder record does not decrypt when the directions interleave")
	}
	opC := func() { ctC = rsp.sendCipher.Encrypt(nil, nil, q) }
	opD := func() {
		pt, err := ini.recvCipher.Decrypt(nil, nil, ctC)
		vAssert(err == nil && vBytesEq(pt, q), "responder->initiator record does not decrypt when the directions interleave")
	}
	orders := [6][4]func(){
		{opA, opB, opC, opD}, {opA, opC, opB, opD}, {opA, opC, opD, opB},
		{opC, opD, opA, opB}, {opC, opA, opD, opB}, {opC, opA, opB, opD},
	}
	for round := 0; round < 2; round++ {
		o := orders[vIntRange("order", 0, 5)]
		for _, op := range o {
			op()
		}
	}
	vReach("directions")
	vAssert(ini.sendCipher.nonce == rsp.recvCipher.nonce && rsp.sendCipher.nonce == ini.recvCipher.nonce, "nonces of a direction diverged")
	// The two directions never share a key, before or after rotations (they
	// count nonces independently, so a shared key means a reused key/nonce
	// pair): a record of one direction is never valid in the other one.
	vAssert(!vIdealEq(ini.sendCipher.secretKey[:], ini.recvCipher.secretKey[:]), "both directions use the same key")
	probe := vBytes("probe", 1)
	a, b := ini.sendCipher, ini.recvCipher // copies: Encrypt advances the nonce
	b.nonce = a.nonce
	vAssert(!vIdealEq(a.Encrypt(nil, nil, probe), b.Encrypt(nil, nil, probe)), "equal plaintexts at the same record position give equal ciphertexts in the two directions (key/nonce pair reused)")
}
