//go:build verif

package mailbox

import "io"

// VH_C08_WriteRetry: key/nonce freshness across failed writes. Three writes on
// a secured connection (gRPC-style or TCP-style); during the second one
// transport write (the header or the body, symbolic choice) accepts only a
// symbolic part and times out, then the application writes again. Whatever
// the connection does to get going again, no two encryptions may use the same
// key with the same nonce: the position of the send cipher never moves
// backwards under an unchanged key, and the ideal AEAD never sees a key/nonce
// pair twice.
func VH_C08_WriteRetry() {
	ini, _ := vMachines()
	wire := &vFlakyConn{failCall: -1}
	wire.out = make([]byte, 0, 400)
	var w io.Writer
	if vBool("tcp") {
		w = &NoiseConn{conn: wire, noise: ini}
	} else {
		w = &NoiseGrpcConn{ProxyConn: wire, noise: ini}
	}
	bufs := [3][]byte{vBytes("a", 2), vBytes("b", 3), vBytes("c", 3)}
	rewound := false
	for i := range bufs {
		k0, n0, w0 := ini.sendCipher.secretKey, ini.sendCipher.nonce, len(wire.out)
		if i == 1 {
			wire.failCall = wire.calls + vIntRange("fail_call", 0, 1)
		}
		w.Write(bufs[i])
		wire.failCall = -1
		// bytes encrypted under the nonces from n0 on reached the wire, yet
		// the cipher stands at n0 (or before it) again: the next record will
		// use those nonces a second time
		if len(wire.out) > w0 && ini.sendCipher.secretKey == k0 && ini.sendCipher.nonce <= n0 {
			rewound = true
		}
	}
	vReach("write-retry-nonces")
	vAssert(!rewound && !vNonceReuse(), "a key/nonce pair was used for two encryptions (the send cipher was wound back after a failed write)")
}
