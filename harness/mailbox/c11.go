//go:build verif

package mailbox

import (
	"context"
	"net"
	"time"
)

// VH_C11_Session: one session over the in-memory relay, real Server.Accept /
// Client.Dial, real mailbox and GBN connections, real Noise handshakes.
//  1. first connection (passphrase rendezvous, XX);
//  2. while it is open a second Accept and a second Dial do not return;
//  3. after it is closed (by the client or by the server) they return a fresh
//     working connection; if static keys were exchanged in (1) both parties
//     have moved to the same key-derived rendezvous and use the key-based
//     pattern there;
//  4. data flows on the new connection.
func VH_C11_Session() {
	s := vNewSession(vParam("faults", 0), vBytes("auth", 3))
	// Like gRPC's Serve loop and dialer, Accept and Dial are re-entered as soon
	// as they returned - i.e. while the first connection is still doing its
	// Noise handshake (the pairing that changes the rendezvous id) - or only
	// after the first connection is fully established.
	eager := vBool("eager_reentry")
	acc, dia := make(chan vConnResult, 1), make(chan vConnResult, 1)
	again := func() {
		go func() { c, err := s.srv.Accept(); acc <- vConnResult{c, err} }()
		go func() { c, err := s.cli.Dial(s.ctx, "relay"); dia <- vConnResult{c, err} }()
	}
	var srv1, cli1 vConnResult
	if eager {
		sc, cc := make(chan vConnResult, 1), make(chan vConnResult, 1)
		go func() {
			c, err := s.srv.Accept()
			if err != nil {
				sc <- vConnResult{nil, err}
				return
			}
			go func() { c2, err2 := s.srv.Accept(); acc <- vConnResult{c2, err2} }()
			nc, _, err := s.srvNoise.ServerHandshake(c)
			sc <- vConnResult{nc, err}
		}()
		go func() {
			c, err := s.cli.Dial(s.ctx, "relay")
			if err != nil {
				cc <- vConnResult{nil, err}
				return
			}
			go func() { c2, err2 := s.cli.Dial(s.ctx, "relay"); dia <- vConnResult{c2, err2} }()
			nc, _, err := s.cliNoise.ClientHandshake(s.ctx, "", c)
			cc <- vConnResult{nc, err}
		}()
		srv1, cli1 = <-sc, <-cc
	} else {
		srv1, cli1 = s.connect()
	}
	vAssert(srv1.err == nil && cli1.err == nil, "first connection failed")
	if srv1.err != nil || cli1.err != nil {
		return
	}
	vReach("first-connection")
	paired := s.srvData.RemoteKey() != nil
	vAssert(paired == (s.cliData.RemoteKey() != nil), "only one side stored the peer's static key")
	vAssert(paired, "default version range did not lead to a key exchange")
	sid0 := s.srv.sid

	// second Accept / Dial while the first connection is open - or, third
	// variant, only after one side has closed it (between the two closes)
	late := !eager && vBool("late_reentry")
	if !eager && !late {
		if vBool("expired_dial") {
			// A dial attempt whose context expires while the first connection
			// is still open (a bounded grpc.DialContext): it may keep waiting
			// or give up with an error, but neither it nor the attempt after
			// it may hand out a second connection.
			ctx2, cancel2 := context.WithTimeout(s.ctx, 5*time.Second)
			go func() { c, err := s.cli.Dial(ctx2, "relay"); dia <- vConnResult{c, err} }()
			time.Sleep(10 * time.Second)
			cancel2()
			select {
			case r := <-dia:
				vAssert(r.err != nil, "Dial handed out a second connection while the previous one is still open (after its context expired)")
				if r.err == nil {
					return
				}
				vReach("expired-dial-gave-up")
				go func() { c, err := s.cli.Dial(s.ctx, "relay"); dia <- vConnResult{c, err} }()
			default:
				// still waiting for the previous connection to be closed:
				// this attempt is the pending Dial from here on
			}
			go func() { c, err := s.srv.Accept(); acc <- vConnResult{c, err} }()
		} else {
			again()
		}
	}
	if !late {
		select {
		case <-acc:
			vAssert(false, "Accept handed out a second connection while the previous one is still open")
			return
		case <-dia:
			vAssert(false, "Dial handed out a second connection while the previous one is still open")
			return
		case <-time.After(60 * time.Second):
			vReach("exclusive")
		}
	}
	// close the first connection
	// One side closes first; the other side's connection object stays open
	// until its owner closes it too (it only learns that the peer is gone):
	// nothing may be handed out on that side in between.
	between := func(first, second net.Conn, pending chan vConnResult, what string) bool {
		first.Close()
		// (short pauses, far below any handshake timeout: a party that dials
		// for long while its peer still holds the old connection leaves stale
		// handshake packets in the relay, which is C10's subject)
		time.Sleep(200 * time.Millisecond)
		if late {
			again()
			late = false
			time.Sleep(200 * time.Millisecond)
		}
		// the closed connection's owner may still call Read on it (a
		// transport that has not noticed yet) while the next Accept/Dial
		// is already re-establishing the session: that call fails, it
		// does not hang
		rd := make(chan error, 1)
		go func() { _, err := first.Read(make([]byte, 1)); rd <- err }()
		select {
		case err := <-rd:
			vReach("closed-read")
			vAssert(err != nil, "Read on a closed connection returned data")
		case <-time.After(5 * time.Second):
			vAssert(false, "Read on a closed connection blocks while the next Accept/Dial is pending (later Read/Write calls must return errors)")
			return false
		}
		select {
		case <-pending:
			vAssert(false, what)
			return false
		default:
		}
		second.Close()
		return true
	}
	if vBool("client_closes") {
		if !between(cli1.conn, srv1.conn, acc, "Accept handed out a second connection after the peer closed but while the previous server connection is still open") {
			return
		}
	} else {
		if !between(srv1.conn, cli1.conn, dia, "Dial handed out a second connection after the peer closed but while the previous client connection is still open") {
			return
		}
	}
	// establish waits for the next Accept/Dial pair and runs the Noise
	// handshakes. Handshake packets of a party that was already dialling while
	// its peer still held the old connection may be left over in the relay and
	// tear the first attempt down visibly (C10); like gRPC, the parties then
	// close and try again: a working connection within three attempts.
	var a, d vConnResult
	var cn net.Conn
	var sr vConnResult
	establish := func(what string) bool {
		for attempt := 0; attempt < vParam("attempts", 1); attempt++ {
			deadline := time.After(300 * time.Second)
			retries := 0
			for got := 0; got < 2; {
				select {
				case a = <-acc:
					// a relay hiccup (truncated frame) may fail one
					// Accept or Dial visibly; like gRPC the caller
					// simply calls again
					if a.err != nil && s.relay.junkAt+s.relay.junkAt2 != 0 && retries < 3 {
						retries++
						vReach("accept-recalled")
						go func() { c, err := s.srv.Accept(); acc <- vConnResult{c, err} }()
						continue
					}
					got++
				case d = <-dia:
					if d.err != nil && s.relay.junkAt+s.relay.junkAt2 != 0 && retries < 3 {
						retries++
						vReach("dial-recalled")
						go func() { c, err := s.cli.Dial(s.ctx, "relay"); dia <- vConnResult{c, err} }()
						continue
					}
					got++
				case <-deadline:
					vAssert(false, "no fresh connection handed out after the "+what+" one was closed")
					return false
				}
			}
			vAssert(a.err == nil && d.err == nil, "Accept/Dial failed after the "+what+" connection was closed")
			if a.err != nil || d.err != nil {
				return false
			}
			hs := make(chan vConnResult, 1)
			ac := a.conn
			go func() { nc, _, err := s.srvNoise.ServerHandshake(ac); hs <- vConnResult{nc, err} }()
			nc, _, err := s.cliNoise.ClientHandshake(s.ctx, "", d.conn)
			cn = nc
			sr = <-hs
			if err == nil && sr.err == nil {
				return true
			}
			vReach("attempt-retried")
			d.conn.Close()
			a.conn.Close()
			again()
		}
		vAssert(false, "no working connection after the "+what+" one was closed")
		return false
	}
	if !establish("previous") {
		return
	}
	vReach("reconnected")
	// both moved to the same key-derived rendezvous
	vAssert(!vIdealEq(s.srv.sid[:], sid0[:]) && !vIdealEq(s.cli.sid[:], sid0[:]), "parties did not leave the passphrase rendezvous after pairing")
	vAssert(vIdealEq(s.srv.sid[:], s.cli.sid[:]), "parties moved to different rendezvous points")
	vAssert(s.srvData.HandshakePattern().Name == KK && s.cliData.HandshakePattern().Name == KK, "parties do not use the key-based pattern after pairing")
	msg := vBytes("msg", 2)
	go func() { cn.Write(msg) }()
	buf := make([]byte, 4)
	n, err := sr.conn.Read(buf)
	vReach("fresh-works")
	vAssert(err == nil && n == 2 && vBytesEq(buf[:n], msg), "fresh connection does not carry data")
	if vParam("cycles", 2) < 2 {
		cn.Close()
		sr.conn.Close()
		s.stop()
		return
	}
	// Second cycle: the rendezvous does not change any more, so Accept and
	// Dial now take their refresh paths. Optionally the previous connection is
	// closed while bytes handed over by the transport are still unread (raw
	// write below the Noise layer, partially read): the next connection must
	// start clean all the same.
	sid1 := s.srv.sid
	again()
	if vBool("leftover") {
		raw := []byte{0xa1, 0xa2, 0xa3}
		go func() { d.conn.Write(raw) }()
		one := make([]byte, 1)
		k, err := a.conn.Read(one)
		vAssert(err == nil && k == 1 && one[0] == 0xa1, "raw bytes do not arrive on the mailbox connection")
	}
	select {
	case <-acc:
		vAssert(false, "Accept handed out a further connection while the second one is still open")
		return
	case <-dia:
		vAssert(false, "Dial handed out a further connection while the second one is still open")
		return
	case <-time.After(20 * time.Second):
	}
	s.relay.nextCycle()
	if vBool("client_closes_2") {
		if !between(cn, sr.conn, acc, "Accept handed out a further connection after the peer closed but while the second server connection is still open") {
			return
		}
	} else {
		if !between(sr.conn, cn, dia, "Dial handed out a further connection after the peer closed but while the second client connection is still open") {
			return
		}
	}
	if !establish("second") {
		return
	}
	vAssert(vIdealEq(s.srv.sid[:], sid1[:]) && vIdealEq(s.cli.sid[:], sid1[:]), "rendezvous changed again although the keys did not")
	msg2 := vBytes("msg2", 2)
	go func() { cn.Write(msg2) }()
	n, err = sr.conn.Read(buf)
	vAssert(err == nil && n == 2 && vBytesEq(buf[:n], msg2), "refreshed connection does not carry the client's data")
	back := vBytes("back", 2)
	go func() { sr.conn.Write(back) }()
	n, err = cn.Read(buf)
	vReach("refreshed-works")
	vAssert(err == nil && n == 2 && vBytesEq(buf[:n], back), "refreshed connection does not carry the server's data")
	cn.Close()
	sr.conn.Close()
	s.stop()
}
