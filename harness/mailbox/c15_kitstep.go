//go:build verif

package mailbox

// This file is the only one that looks inside connKit's buffering (its
// recvBuffer field): if that representation changes, only this harness stops
// compiling and is left out; VH_C15_KitReads states the same contract
// behaviourally.

// VH_C15_KitStep: connKit.Read (the plain mailbox connection).
func VH_C15_KitStep() {
	l := vInt("reclen")
	vAssume(l >= vParam("minrec", 1) && l <= 65535)
	rec := vStream("rec", l)
	raw, err := NewMsgData(ProtocolVersion, rec).Serialize()
	vAssert(err == nil, "MsgData.Serialize failed")
	ctl := &vCtl{raw: raw}
	k := &connKit{impl: ctl}
	tail := vTail()
	k.recvBuffer.Write(tail)
	buf, m := vBuf()
	n, rerr := k.Read(buf)
	left := 1 - ctl.received
	vStepCheck(tail, rec, buf, n, rerr, m, k.recvBuffer.Bytes(), left, 1)
}
