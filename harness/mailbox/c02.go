//go:build verif

package mailbox

import "io"

// VH_C02_Step: inductive step of "the reader only ever returns the next honest
// record". The initiator writes two records r0, r1 (symbolic lengths), the
// responder writes one in the other direction. The reader is in lock-step and
// expects record `expect` (0: fresh connection; 1: after honestly reading r0).
// The relay builds the reader's input from up to `segments` segments, each:
//
//	0 a slice [a,b) of the honest byte stream of this direction (both records)
//	1 a junk stream of symbolic length
//	2 a slice of the other direction's byte stream (reflection)
//	3 a slice of the honest stream with one byte XORed by a non-zero mask
//
// (drop, duplicate, reorder, replay, truncate, inject, reflect and bit flips
// are all instances). One ReadMessage: it returns either exactly the expected
// record or an error. Together with the lock-step step (VH_C08_LockStep:
// after a correct record both sides are in lock-step again) this covers
// streams of any length.
func VH_C02_Step() {
	ini, rsp := vMachines()
	maxRec := vParam("maxrec", 65535)
	var recs [2][]byte
	var lens [2]int
	w := &vPipeConn{out: make([]byte, 0, vParam("wirecap", 2*65570))}
	var ends [2]int
	for i := 0; i < 2; i++ {
		lens[i] = vInt("len")
		vAssume(lens[i] >= 0 && lens[i] <= maxRec)
		recs[i] = vStream("rec", lens[i])
		vAssert(ini.WriteMessage(recs[i]) == nil, "WriteMessage failed")
		_, err := ini.Flush(w)
		vAssert(err == nil, "Flush failed")
		ends[i] = len(w.out)
	}
	honest := w.out
	w2 := &vPipeConn{out: make([]byte, 0, vParam("wirecap2", 70000))}
	ol := vInt("otherlen")
	vAssume(ol >= 0 && ol <= maxRec)
	vAssert(rsp.WriteMessage(vStream("other", ol)) == nil, "WriteMessage failed")
	_, err := rsp.Flush(w2)
	vAssert(err == nil, "Flush failed")
	other := w2.out

	expect := vIntRange("expect", 0, 1)
	if expect == 1 {
		m, err := rsp.ReadMessage(&vPipeConn{buf: honest[:ends[0]]})
		vAssert(err == nil && len(m) == lens[0], "honest first record does not decrypt")
	}

	in := make([]byte, 0, vParam("incap", 3*65570))
	segs := vParam("segments", 2)
	for sgi := 0; sgi < segs; sgi++ {
		kind := vIntRange("kind", 0, 3)
		a, b := vInt("a"), vInt("b")
		switch kind {
		case 0, 3:
			vAssume(a >= 0 && a <= b && b <= len(honest))
			start := len(in)
			in = append(in, honest[a:b]...)
			if kind == 3 {
				pos, mask := vInt("pos"), vU8("mask")
				vAssume(pos >= 0 && pos < b-a && mask != 0)
				in[start+pos] ^= mask
			}
		case 1:
			vAssume(a >= 0 && a <= 70000)
			in = append(in, vStream("junk", a)...)
		case 2:
			vAssume(a >= 0 && a <= b && b <= len(other))
			in = append(in, other[a:b]...)
		}
	}
	rd := &vPipeConn{buf: in}
	vReach("script")
	m, err := rsp.ReadMessage(rd)
	if err != nil {
		vReach("rejected")
		return // the deviation surfaced as an error
	}
	vReach("accepted")
	vAssert(len(m) == lens[expect], "a record was returned that is not the next honest record (length)")
	j := vInt("j")
	if j >= 0 && j < len(m) && j < lens[expect] {
		vAssert(m[j] == recs[expect][j], "a record was returned that is not the next honest record (altered, replayed, reordered or cross-direction data accepted)")
	}
}

// VH_C02_AfterError: the prefix property across read errors. The statement
// says the plaintext returned to the reader is *always* a prefix of what the
// peer wrote; a reader that calls Read again after an error (any net.Conn
// user may) must therefore never be handed anything but the next honest
// record it has not returned yet. The initiator writes three records (lengths
// 0, 2 or 5 each - two bytes makes a body as long as an encrypted header); the
// wire consists of six segments (header and body of each record); the relay
// corrupts one byte of segment k (symbolic non-zero mask), drops segment k, or
// delivers segment k twice; the reader calls ReadMessage until the input is
// used up, whatever the outcomes. Every successful call must return exactly
// the next record in order.
func VH_C02_AfterError() {
	ini, rsp := vMachines()
	const nrec = 3
	var recs [nrec][]byte
	var segs [2 * nrec][]byte
	for i := 0; i < nrec; i++ {
		recs[i] = vBytes("rec", [3]int{0, 2, 5}[vIntRange("len_idx", 0, 2)])
		w := &vPipeConn{}
		vAssert(ini.WriteMessage(recs[i]) == nil, "WriteMessage failed")
		_, err := ini.Flush(w)
		vAssert(err == nil && len(w.out) == 18+len(recs[i])+16, "Flush failed")
		segs[2*i], segs[2*i+1] = w.out[:18], w.out[18:]
	}
	mode := vIntRange("mode", 0, 2) // 0 corrupt, 1 drop, 2 duplicate
	k := vIntRange("segment", 0, 2*nrec-1)
	var in []byte
	for i, sg := range segs {
		if i == k {
			switch mode {
			case 0:
				bad := make([]byte, len(sg))
				copy(bad, sg)
				mask := vU8("mask")
				vAssume(mask != 0)
				bad[0] ^= mask
				sg = bad
			case 1:
				continue
			case 2:
				in = append(in, sg...)
			}
		}
		in = append(in, sg...)
	}
	rd := &vPipeConn{buf: in}
	expect := 0
	for i := 0; i < 2*nrec+2 && rd.off < len(rd.buf); i++ {
		m, err := rsp.ReadMessage(rd)
		if err != nil {
			vReach("after-error")
			continue
		}
		vReach("after-error-accepted")
		vAssert(expect < nrec, "more records returned than were written")
		if expect >= nrec {
			return
		}
		vAssert(vBytesEq(m, recs[expect]), "a record was returned that is not the next honest record: after a read error the reader was handed later or foreign data, so what it has received is no longer a prefix of what the peer wrote")
		expect++
	}
}

// vScriptReader hands out a script of chunks; a nil chunk is a read deadline
// that expires (0, timeout), the end of the script is io.EOF.
type vScriptReader struct {
	chunks [][]byte
	i      int
}

func (r *vScriptReader) Read(p []byte) (int, error) {
	for r.i < len(r.chunks) && r.chunks[r.i] != nil && len(r.chunks[r.i]) == 0 {
		r.i++
	}
	if r.i >= len(r.chunks) {
		return 0, io.EOF
	}
	if r.chunks[r.i] == nil {
		r.i++
		return 0, vErrTimeout
	}
	n := copy(p, r.chunks[r.i])
	r.chunks[r.i] = r.chunks[r.i][n:]
	return n, nil
}

// VH_C02_ReadTimeout: a read deadline expires in the middle of a record (after
// `cut` of its bytes: inside the header or inside the body), the reader reads
// again - as any net.Conn user may after a timeout - and the rest of the
// record arrives, intact or with one byte altered by the relay; another
// record follows. Whatever the reader does with the interrupted record
// (give up for good, or resume), every read that succeeds returns the next
// record the peer wrote: nothing altered is accepted and no record is cut out
// of the stream.
func VH_C02_ReadTimeout() {
	ini, rsp := vMachines()
	recs := [3][]byte{vBytes("r0", 2), vBytes("r1", 3), vBytes("r2", 2)}
	var wire [3][]byte
	for i := range recs {
		w := &vPartialWriter{log: make([]byte, 0, 64)}
		vAssert(ini.WriteMessage(recs[i]) == nil, "WriteMessage failed")
		_, err := ini.Flush(w)
		vAssert(err == nil, "Flush failed")
		wire[i] = w.log
	}
	cut := vIntRange("cut", 1, len(wire[1])-1)
	rest := make([]byte, len(wire[1])-cut)
	copy(rest, wire[1][cut:])
	if vBool("rest_altered") {
		at := 0
		if vBool("alter_last_byte") {
			at = len(rest) - 1
		}
		rest[at] ^= 1
	}
	src := &vScriptReader{chunks: [][]byte{wire[0], wire[1][:cut], nil, rest, wire[2]}}
	var got [][]byte
	for tries := 0; tries < 8; tries++ {
		m, err := rsp.ReadMessage(src)
		if err == nil {
			got = append(got, m)
		}
	}
	vReach("read-timeout")
	vAssert(len(got) >= 1, "the record before the interrupted one was not delivered")
	for i, m := range got {
		vAssert(i < len(recs) && vBytesEq(m, recs[i]), "a read after a deadline error returned something else than the next record the peer wrote (a record was cut out of the stream, or altered data was accepted)")
	}
}
