//go:build verif

package mailbox

// VH_C02_Step: inductive step of "the reader only ever returns the next honest
// record". The initiator writes two records r0, r1 (symbolic lengths), the
// responder writes one in the other direction. The reader is in lock-step and
// expects record `expect` (0: fresh connection; 1: after honestly reading r0).
// The relay builds the reader's input from up to `segments` segments, each:
//
//	0 a slice [a,b) of the honest byte stream of this direction (both records)
//	1 a junk stream of symbolic length
//	2 a slice of the other direction's byte stream (reflection)
//	3 a slice of the honest stream with one byte XORed by a non-zero mask
//
// (drop, duplicate, reorder, replay, truncate, inject, reflect and bit flips
// are all instances). One ReadMessage: it returns either exactly the expected
// record or an error. Together with the lock-step step (VH_C08_LockStep:
// after a correct record both sides are in lock-step again) this covers
// streams of any length.
func VH_C02_Step() {
	ini, rsp := vMachines()
	maxRec := vParam("maxrec", 65535)
	var recs [2][]byte
	var lens [2]int
	w := &vPipeConn{out: make([]byte, 0, vParam("wirecap", 2*65570))}
	var ends [2]int
	for i := 0; i < 2; i++ {
		lens[i] = vInt("len")
		vAssume(lens[i] >= 0 && lens[i] <= maxRec)
		recs[i] = vStream("rec", lens[i])
		vAssert(ini.WriteMessage(recs[i]) == nil, "WriteMessage failed")
		_, err := ini.Flush(w)
		vAssert(err == nil, "Flush failed")
		ends[i] = len(w.out)
	}
	honest := w.out
	w2 := &vPipeConn{out: make([]byte, 0, vParam("wirecap2", 70000))}
	ol := vInt("otherlen")
	vAssume(ol >= 0 && ol <= maxRec)
	vAssert(rsp.WriteMessage(vStream("other", ol)) == nil, "WriteMessage failed")
	_, err := rsp.Flush(w2)
	vAssert(err == nil, "Flush failed")
	other := w2.out

	expect := vIntRange("expect", 0, 1)
	if expect == 1 {
		m, err := rsp.ReadMessage(&vPipeConn{buf: honest[:ends[0]]})
		vAssert(err == nil && len(m) == lens[0], "honest first record does not decrypt")
	}

	in := make([]byte, 0, vParam("incap", 3*65570))
	segs := vParam("segments", 2)
	for sgi := 0; sgi < segs; sgi++ {
		kind := vIntRange("kind", 0, 3)
		a, b := vInt("a"), vInt("b")
		switch kind {
		case 0, 3:
			vAssume(a >= 0 && a <= b && b <= len(honest))
			start := len(in)
			in = append(in, honest[a:b]...)
			if kind == 3 {
				pos, mask := vInt("pos"), vU8("mask")
				vAssume(pos >= 0 && pos < b-a && mask != 0)
				in[start+pos] ^= mask
			}
		case 1:
			vAssume(a >= 0 && a <= 70000)
			in = append(in, vStream("junk", a)...)
		case 2:
			vAssume(a >= 0 && a <= b && b <= len(other))
			in = append(in, other[a:b]...)
		}
	}
	rd := &vPipeConn{buf: in}
	vReach("script")
	m, err := rsp.ReadMessage(rd)
	if err != nil {
		vReach("rejected")
		return // the deviation surfaced as an error
	}
	vReach("accepted")
	vAssert(len(m) == lens[expect], "a record was returned that is not the next honest record (length)")
	j := vInt("j")
	if j >= 0 && j < len(m) && j < lens[expect] {
		vAssert(m[j] == recs[expect][j], "a record was returned that is not the next honest record (altered, replayed, reordered or cross-direction data accepted)")
	}
}

// VH_C02_AfterError: the prefix property across read errors. The statement
// says the plaintext returned to the reader is *always* a prefix of what the
// peer wrote; a reader that calls Read again after an error (any net.Conn
// user may) must therefore never be handed anything but the next honest
// record it has not returned yet. The initiator writes three records; the
// relay delivers a slice of the honest stream with one byte XORed (symbolic
// position and mask; position beyond the slice = untouched) followed by a
// second slice of the honest stream or junk; the reader calls ReadMessage
// `reads` times whatever the outcome. Every successful call must return
// exactly the next record in order.
func VH_C02_AfterError() {
	ini, rsp := vMachines()
	maxRec := vParam("maxrec", 40)
	const nrec = 3
	var recs [nrec][]byte
	var lens [nrec]int
	w := &vPipeConn{out: make([]byte, 0, nrec*(maxRec+40))}
	for i := 0; i < nrec; i++ {
		lens[i] = vInt("len")
		vAssume(lens[i] >= 0 && lens[i] <= maxRec)
		recs[i] = vStream("rec", lens[i])
		vAssert(ini.WriteMessage(recs[i]) == nil, "WriteMessage failed")
		_, err := ini.Flush(w)
		vAssert(err == nil, "Flush failed")
	}
	honest := w.out
	in := make([]byte, 0, 3*nrec*(maxRec+40))
	// first segment: honest prefix [0,b) with one flipped byte
	b := vInt("b")
	vAssume(b >= 0 && b <= len(honest))
	in = append(in, honest[:b]...)
	pos, mask := vInt("pos"), vU8("mask")
	vAssume(pos >= 0 && pos < b && mask != 0)
	in[pos] ^= mask
	// second segment: any slice of the honest stream (replay, skip ahead,
	// plain continuation) or junk
	if vBool("junk2") {
		a2 := vInt("a2")
		vAssume(a2 >= 0 && a2 <= 100)
		in = append(in, vStream("junk", a2)...)
	} else {
		a2, b2 := vInt("a2"), vInt("b2")
		vAssume(a2 >= 0 && a2 <= b2 && b2 <= len(honest))
		in = append(in, honest[a2:b2]...)
	}
	rd := &vPipeConn{buf: in}
	expect := 0
	reads := vParam("reads", 4)
	for i := 0; i < reads; i++ {
		m, err := rsp.ReadMessage(rd)
		if err != nil {
			vReach("after-error")
			if rd.off >= len(rd.buf) {
				break
			}
			continue
		}
		vReach("after-error-accepted")
		vAssert(expect < nrec, "more records returned than were written")
		if expect >= nrec {
			return
		}
		vAssert(len(m) == lens[expect], "after a read error a record was returned that is not the next honest record: what the reader has received is no longer a prefix of what the peer wrote (length)")
		j := vInt("j")
		if j >= 0 && j < len(m) && j < lens[expect] {
			vAssert(m[j] == recs[expect][j], "after a read error a record was returned that is not the next honest record (content)")
		}
		expect++
	}
}
