//go:build verif

package mailbox

// VH_C02_Step: inductive step of "the reader only ever returns the next honest
// record". The initiator writes two records r0, r1 (symbolic lengths), the
// responder writes one in the other direction. The reader is in lock-step and
// expects record `expect` (0: fresh connection; 1: after honestly reading r0).
// The relay builds the reader's input from up to `segments` segments, each:
//
//	0 a slice [a,b) of the honest byte stream of this direction (both records)
//	1 a junk stream of symbolic length
//	2 a slice of the other direction's byte stream (reflection)
//	3 a slice of the honest stream with one byte XORed by a non-zero mask
//
// (drop, duplicate, reorder, replay, truncate, inject, reflect and bit flips
// are all instances). One ReadMessage: it returns either exactly the expected
// record or an error. Together with the lock-step step (VH_C08_LockStep:
// after a correct record both sides are in lock-step again) this covers
// streams of any length.
func VH_C02_Step() {
	ini, rsp := vMachines()
	maxRec := vParam("maxrec", 65535)
	var recs [2][]byte
	var lens [2]int
	w := &vPipeConn{out: make([]byte, 0, vParam("wirecap", 2*65570))}
	var ends [2]int
	for i := 0; i < 2; i++ {
		lens[i] = vInt("len")
		vAssume(lens[i] >= 0 && lens[i] <= maxRec)
		recs[i] = vStream("rec", lens[i])
		vAssert(ini.WriteMessage(recs[i]) == nil, "WriteMessage failed")
		_, err := ini.Flush(w)
		vAssert(err == nil, "Flush failed")
		ends[i] = len(w.out)
	}
	honest := w.out
	w2 := &vPipeConn{out: make([]byte, 0, vParam("wirecap2", 70000))}
	ol := vInt("otherlen")
	vAssume(ol >= 0 && ol <= maxRec)
	vAssert(rsp.WriteMessage(vStream("other", ol)) == nil, "WriteMessage failed")
	_, err := rsp.Flush(w2)
	vAssert(err == nil, "Flush failed")
	other := w2.out

	expect := vIntRange("expect", 0, 1)
	if expect == 1 {
		m, err := rsp.ReadMessage(&vPipeConn{buf: honest[:ends[0]]})
		vAssert(err == nil && len(m) == lens[0], "honest first record does not decrypt")
	}

	in := make([]byte, 0, vParam("incap", 3*65570))
	segs := vParam("segments", 2)
	for sgi := 0; sgi < segs; sgi++ {
		kind := vIntRange("kind", 0, 3)
		a, b := vInt("a"), vInt("b")
		switch kind {
		case 0, 3:
			vAssume(a >= 0 && a <= b && b <= len(honest))
			start := len(in)
			in = append(in, honest[a:b]...)
			if kind == 3 {
				pos, mask := vInt("pos"), vU8("mask")
				vAssume(pos >= 0 && pos < b-a && mask != 0)
				in[start+pos] ^= mask
			}
		case 1:
			vAssume(a >= 0 && a <= 70000)
			in = append(in, vStream("junk", a)...)
		case 2:
			vAssume(a >= 0 && a <= b && b <= len(other))
			in = append(in, other[a:b]...)
		}
	}
	rd := &vPipeConn{buf: in}
	vReach("script")
	m, err := rsp.ReadMessage(rd)
	if err != nil {
		vReach("rejected")
		return // the deviation surfaced as an error
	}
	vReach("accepted")
	vAssert(len(m) == lens[expect], "a record was returned that is not the next honest record (length)")
	j := vInt("j")
	if j >= 0 && j < len(m) && j < lens[expect] {
		vAssert(m[j] == recs[expect][j], "a record was returned that is not the next honest record (altered, replayed, reordered or cross-direction data accepted)")
	}
}
