//go:build verif

package mailbox

import (
	"context"
	"net"
	"time"

	"github.com/btcsuite/btcd/btcec/v2"
	"github.com/lightningnetwork/lnd/keychain"
)

func vNoKeys(p *vParty) bool {
	return p.m.sendCipher.cipher == nil && p.m.recvCipher.cipher == nil
}

// VH_C03_XX: first-time handshake with two arbitrary passphrase entropies.
// If they differ in any byte the responder aborts in act 1, before it has
// written a single byte (so the auth payload is never released), and neither
// side ends up with traffic keys; the initiator never receives auth data.
// With equal entropies the handshake completes (non-vacuity).
func VH_C03_XX() {
	cfg := &vHSConfig{}
	vVersions(cfg)
	cfg.cliPW, cfg.srvPW = vBytes("pw_c", 14), vBytes("pw_s", 14)
	auth := vBytes("auth", [3]int{0, 7, 600}[vIntRange("authlen_idx", 0, 2)])
	cfg.auth = auth
	hs, ok := vSetup(cfg)
	vAssert(ok, "machine construction failed")
	same := vBytesEq(cfg.cliPW, cfg.srvPW)
	vRunHandshake(hs)
	if !same {
		vReach("mismatch")
		vAssert(hs.srv.err != nil, "responder completed a handshake with a peer that does not know the passphrase")
		vAssert(hs.s2c.written == 0, "responder emitted handshake bytes (auth payload released) before the passphrase was verified")
		vAssert(hs.cli.err != nil, "initiator completed a handshake with a different passphrase")
		vAssert(vNoKeys(hs.cli) && vNoKeys(hs.srv), "a party derived traffic keys although the passphrases differ")
		vAssert(hs.cli.authCalls == 0 && hs.cli.m.receivedPayload == nil, "initiator obtained auth data without the passphrase")
		vAssert(hs.srv.remoteCalls == 0 && hs.cli.remoteCalls == 0, "a static key was stored although the passphrases differ")
	} else {
		vReach("match")
		compatible := cfg.sMin <= cfg.cMin && cfg.cMin <= cfg.sMax && cfg.sMax <= cfg.cMax
		fits := cfg.sMax != 0 || len(auth) <= 498
		if compatible && fits {
			vAssert(hs.cli.err == nil && hs.srv.err == nil, "handshake with equal passphrases failed")
		}
	}
}

// VH_C03_KK: repeat handshake. Each side expects a static key of the other
// (arbitrary keys). It completes only if each side's static key is the one the
// other side expects; otherwise the responder emits nothing and nobody gets
// keys.
func VH_C03_KK() {
	cfg := &vHSConfig{kk: true, cMin: 2, cMax: 2, sMin: 2, sMax: 2}
	cfg.auth = vBytes("auth", 7)
	var cliExp, srvExp *btcec.PrivateKey
	wrongC, wrongS := vBool("cli_expects_other"), vBool("srv_expects_other")
	if wrongC {
		cliExp = vPrivKey("cli_expected")
		cfg.cliExpects = cliExp.PubKey()
	}
	if wrongS {
		srvExp = vPrivKey("srv_expected")
		cfg.srvExpects = srvExp.PubKey()
	}
	hs, ok := vSetup(cfg)
	vAssert(ok, "machine construction failed")
	if wrongC {
		vAssume(!vSamePrivKey(cliExp, hs.srv.priv))
	}
	if wrongS {
		vAssume(!vSamePrivKey(srvExp, hs.cli.priv))
	}
	vRunHandshake(hs)
	if wrongC || wrongS {
		vReach("kk-mismatch")
		vAssert(hs.srv.err != nil, "responder completed a key-based handshake although a stored key does not match")
		vAssert(hs.s2c.written == 0, "responder emitted handshake bytes before the initiator's key was verified")
		vAssert(hs.cli.err != nil, "initiator completed a key-based handshake although a stored key does not match")
		vAssert(vNoKeys(hs.cli) && vNoKeys(hs.srv), "a party derived traffic keys although a stored key does not match")
		vAssert(hs.cli.authCalls == 0, "initiator obtained auth data with a wrong key")
	} else {
		vReach("kk-match")
		vAssert(hs.cli.err == nil && hs.srv.err == nil, "key-based handshake between paired parties failed")
	}
}

// VH_C03_Unpaired: after pairing the server runs the key-based pattern; a
// different client that only has the original passphrase (XX pattern) is not
// admitted: the server aborts without emitting anything.
func VH_C03_Unpaired() {
	pw := vBytes("pw", 14)
	paired, srvKey, intruder := vPrivKey("paired_client"), vPrivKey("srv_static"), vPrivKey("intruder")
	vAssume(!vSamePrivKey(paired, srvKey) && !vSamePrivKey(intruder, srvKey) && !vSamePrivKey(intruder, paired))
	hs := &vHS{c2s: newHalf(), s2c: newHalf()}
	var err1, err2 error
	// the server knows the paired client's key: KK
	hs.srv, err1 = vNewParty(false, srvKey, paired.PubKey(), pw, vBytes("auth", 7), 0, 2)
	// the intruder knows only the passphrase: XX
	hs.cli, err2 = vNewParty(true, intruder, nil, pw, nil, 0, 2)
	vAssert(err1 == nil && err2 == nil, "machine construction failed")
	vAssert(hs.srv.cd.HandshakePattern().Name == KK && hs.cli.cd.HandshakePattern().Name == XX, "patterns are not KK (server) / XX (intruder)")
	vRunHandshake(hs)
	vReach("unpaired")
	vAssert(hs.srv.err != nil, "paired server admitted a client that only presented the passphrase")
	vAssert(hs.s2c.written == 0, "paired server emitted handshake bytes to an unpaired client")
	vAssert(vNoKeys(hs.srv), "paired server derived traffic keys with an unpaired client")
}

// VH_C03_Impostor: repeat (key-based) handshake against a party that presents
// the paired static public key - so every public value it mixes into the
// handshake is the expected one - but does not hold the matching private key
// (its Diffie-Hellman results come from a different key). The honest side
// aborts at the impostor's first message that depends on the static key,
// a responder emits nothing, nobody gets keys, no auth data is released.
func VH_C03_Impostor() {
	pw := vBytes("pw", 14)
	paired, srvKey, own := vPrivKey("paired_client"), vPrivKey("srv_static"), vPrivKey("impostor_key")
	vAssume(!vSamePrivKey(paired, srvKey) && !vSamePrivKey(own, srvKey) && !vSamePrivKey(own, paired))
	hs := &vHS{c2s: newHalf(), s2c: newHalf()}
	var err1, err2 error
	if vBool("impostor_is_responder") {
		// honest initiator (the paired client) against a fake server
		hs.cli, err1 = vNewParty(true, paired, srvKey.PubKey(), pw, nil, 2, 2)
		hs.srv, err2 = vNewPartyECDH(false, own, &vImpostorECDH{claimed: srvKey.PubKey(), own: &keychain.PrivKeyECDH{PrivKey: own}}, paired.PubKey(), pw, vBytes("auth", 7), 2, 2)
		vAssert(err1 == nil && err2 == nil, "machine construction failed")
		vRunHandshake(hs)
		vReach("fake-responder")
		vAssert(hs.cli.err != nil, "initiator completed a key-based handshake with a responder that does not hold the paired key")
		vAssert(vNoKeys(hs.cli), "initiator derived traffic keys with a responder that does not hold the paired key")
		vAssert(hs.cli.authCalls == 0, "initiator accepted auth data from a responder that does not hold the paired key")
		return
	}
	hs.srv, err1 = vNewParty(false, srvKey, paired.PubKey(), pw, vBytes("auth", 7), 2, 2)
	hs.cli, err2 = vNewPartyECDH(true, own, &vImpostorECDH{claimed: paired.PubKey(), own: &keychain.PrivKeyECDH{PrivKey: own}}, srvKey.PubKey(), pw, nil, 2, 2)
	vAssert(err1 == nil && err2 == nil, "machine construction failed")
	vAssert(hs.srv.cd.HandshakePattern().Name == KK && hs.cli.cd.HandshakePattern().Name == KK, "patterns are not KK")
	vRunHandshake(hs)
	vReach("fake-initiator")
	vAssert(hs.srv.err != nil, "responder completed a key-based handshake with an initiator that does not hold the paired key")
	vAssert(hs.s2c.written == 0, "responder emitted handshake bytes (auth payload released) to an initiator that does not hold the paired key")
	vAssert(vNoKeys(hs.srv), "responder derived traffic keys with an initiator that does not hold the paired key")
}

// VH_C03_Retry: the passphrase check does not wear out. One process sees
// several handshake attempts (the listener accepts again after a failed
// attempt; a client retries): `attempts` successive first-time handshakes
// between freshly built Machines with the same two arbitrary, different
// passphrase entropies. Every attempt - not only the first - is rejected by
// the responder before it has written a byte, and nobody gets keys or auth
// data. (State that survives an attempt - caches, scrubbed or shared buffers -
// must not weaken the next one.) A final attempt with the client now using the
// server's passphrase completes.
func VH_C03_Retry() {
	pwC, pwS := vBytes("pw_c", 14), vBytes("pw_s", 14)
	vAssume(!vBytesEq(pwC, pwS))
	auth := vBytes("auth", 7)
	attempts := vParam("attempts", 2)
	for i := 0; i < attempts; i++ {
		cfg := &vHSConfig{cMin: 0, cMax: 2, sMin: 0, sMax: 2, auth: auth}
		cfg.cliPW, cfg.srvPW = pwC, pwS
		hs, ok := vSetup(cfg)
		vAssert(ok, "machine construction failed")
		vRunHandshake(hs)
		vReach("retry-mismatch")
		vAssert(hs.srv.err != nil, "responder completed a handshake with a peer that does not know the passphrase (not on the first attempt)")
		vAssert(hs.s2c.written == 0, "responder emitted handshake bytes (auth payload released) before the passphrase was verified (not on the first attempt)")
		vAssert(hs.cli.err != nil && vNoKeys(hs.cli) && vNoKeys(hs.srv), "a party completed or derived traffic keys although the passphrases differ")
		vAssert(hs.cli.authCalls == 0 && hs.cli.m.receivedPayload == nil, "initiator obtained auth data without the passphrase")
	}
	cfg := &vHSConfig{cMin: 0, cMax: 2, sMin: 0, sMax: 2, auth: auth}
	cfg.cliPW, cfg.srvPW = pwS, pwS
	hs, ok := vSetup(cfg)
	vAssert(ok, "machine construction failed")
	vRunHandshake(hs)
	vReach("retry-match")
	vAssert(hs.cli.err == nil && hs.srv.err == nil, "handshake with equal passphrases failed after rejected attempts")
}

// vProxyEnd makes one end of the in-memory duplex connection a ProxyConn, so
// that the real NoiseGrpcConn.ServerHandshake / ClientHandshake run over it.
type vProxyEnd struct{ *vEnd }

func (vProxyEnd) Close() error                       { return nil }
func (vProxyEnd) LocalAddr() net.Addr                { return nil }
func (vProxyEnd) RemoteAddr() net.Addr               { return nil }
func (vProxyEnd) SetDeadline(t time.Time) error      { return nil }
func (vProxyEnd) SetReadDeadline(t time.Time) error  { return nil }
func (vProxyEnd) SetWriteDeadline(t time.Time) error { return nil }
func (vProxyEnd) ReceiveControlMsg(ControlMsg) error { return nil }
func (vProxyEnd) SendControlMsg(ControlMsg) error    { return nil }
func (vProxyEnd) SetRecvTimeout(time.Duration)       {}
func (vProxyEnd) SetSendTimeout(time.Duration)       {}

// VH_C03_RetryConn: the listener's long-lived credentials object
// (NoiseGrpcConn, one per session, re-used for every incoming connection)
// sees a client with a wrong passphrase twice and then the right client.
// Both wrong attempts are rejected before the responder writes a byte; the
// right one completes - whatever the object keeps between handshakes must not
// wear the check out, nor lock the legitimate client out.
func VH_C03_RetryConn() {
	pwC, pwS := vBytes("pw_c", 14), vBytes("pw_s", 14)
	vAssume(!vBytesEq(pwC, pwS))
	auth := vBytes("auth", 7)
	sk := vPrivKey("srv_static")
	srvNoise := NewNoiseGrpcConn(NewConnData(&keychain.PrivKeyECDH{PrivKey: sk}, nil, pwS, auth, nil, nil))
	attempt := func(pw []byte) (error, error, int) {
		c2s, s2c := newHalf(), newHalf()
		ck := vPrivKey("cli_static")
		cliNoise := NewNoiseGrpcConn(NewConnData(&keychain.PrivKeyECDH{PrivKey: ck}, nil, pw, nil, nil, nil))
		done := make(chan error, 1)
		go func() {
			_, _, err := srvNoise.ServerHandshake(vProxyEnd{&vEnd{r: c2s, w: s2c}})
			if err != nil {
				close(s2c.closed)
			}
			done <- err
		}()
		_, _, cerr := cliNoise.ClientHandshake(context.Background(), "", vProxyEnd{&vEnd{r: s2c, w: c2s}})
		if cerr != nil {
			close(c2s.closed)
		}
		return cerr, <-done, s2c.written
	}
	for i := 0; i < vParam("attempts", 2); i++ {
		cerr, serr, wrote := attempt(pwC)
		vReach("retryconn-mismatch")
		vAssert(serr != nil && wrote == 0, "the listener answered a client that does not know the passphrase (not on the first attempt)")
		vAssert(cerr != nil, "a client with a different passphrase completed the handshake")
	}
	pw := make([]byte, 14)
	copy(pw, pwS)
	cerr, serr, _ := attempt(pw)
	vReach("retryconn-match")
	vAssert(cerr == nil && serr == nil, "the right client is rejected after wrong attempts on the same listener object")
}
