//go:build verif

package mailbox

import (
	"context"
	"errors"
	"sync"

	"github.com/lightninglabs/lightning-node-connect/hashmailrpc"
	"google.golang.org/grpc"
)

var vErrStream = errors.New("verif: stream broken")

// The hashmail server reports these two conditions in the text of the stream
// error when a stream is re-opened after a break; the client derives its
// status from them.
var (
	vErrOccupied = errors.New("rpc error: code = Unknown desc = read stream occupied")
	vErrNotFound = errors.New("rpc error: code = Unknown desc = stream not found")
)

// recvErr picks the text of a receive-stream failure.
func (r *vRelay) recvErr() error {
	if !r.texts {
		return vErrStream
	}
	switch vIntRange("relay_errtext", 0, 2) {
	case 1:
		return vErrOccupied
	case 2:
		return vErrNotFound
	}
	return vErrStream
}

// vRelay is an in-memory hashmail server: two mailboxes (one per direction)
// addressed by stream id. Each of its first `budget` operations may fail
// (stream error on Send or Recv) or silently drop the message, on symbolic
// decisions. Every message it ever sees is kept for the ciphertext check.
type vRelay struct {
	mu     sync.Mutex
	sid    [64]byte
	ids    [][]byte
	boxes  []chan []byte
	budget int
	// the faulty window starts after `skip` operations
	skip int
	// texts: receive-stream failures carry one of the server's status texts
	texts bool
	// delFail: DelCipherBox calls fail on a symbolic choice
	delFail bool
	// stalled: stream Sends block (flow control: nobody drains the stream)
	// until the context the stream was opened with is cancelled
	stalled bool
	// relay restart: every stream opened before it fails once
	restartCh chan struct{}
	seen      [][]byte
	sends     int
	// all stream ids presented so far that are not sid / sid^1 get their own pair
	alt     *vRelay
	creates int
	// refuseOpt: after a restart the relay may still be unreachable for the
	// first re-dial (symbolic choice): that stream creation is refused
	refuseOpt bool
	refuse    int
	// junkAt: the k-th frame (1-based; 0 = none) that the relay delivers at a
	// rendezvous other than the initial one is truncated to its first byte
	// (a single relay hiccup right after the post-pairing switch)
	junkAt   int
	junkSeen int
	// junkAt2: the same for the next reconnect cycle (armed by nextCycle)
	junkAt2 int
}

func newRelay(sid [64]byte, budget int) *vRelay {
	return &vRelay{sid: sid, budget: budget, restartCh: make(chan struct{})}
}

// restart: the relay drops all its streams (they fail on their pending or next
// operation); new streams work.
func (r *vRelay) restart() {
	r.mu.Lock()
	defer r.mu.Unlock()
	close(r.restartCh)
	r.restartCh = make(chan struct{})
	if r.refuseOpt && vIntRange("relay_refuses_first_redial", 0, 1) == 1 {
		r.refuse = 1
	}
}

// refused: a stream creation right after a restart is refused once.
func (r *vRelay) refused() bool {
	r.mu.Lock()
	defer r.mu.Unlock()
	if r.refuse > 0 {
		r.refuse--
		return true
	}
	return false
}

// truncates counts the deliveries at the later rendezvous points and reports
// whether this one is the frame to truncate.
func (r *vRelay) truncates() bool {
	r.mu.Lock()
	defer r.mu.Unlock()
	r.junkSeen++
	return r.junkAt != 0 && r.junkSeen == r.junkAt
}

// nextCycle: the harness starts another reconnect cycle; the frame counter
// starts again and the cycle's own truncation choice takes effect.
func (r *vRelay) nextCycle() {
	r.mu.Lock()
	defer r.mu.Unlock()
	r.junkSeen = 0
	r.junkAt = r.junkAt2
}

func (r *vRelay) epoch() chan struct{} {
	r.mu.Lock()
	defer r.mu.Unlock()
	return r.restartCh
}

// box returns the mailbox of a stream id (one mailbox per distinct id; ids
// are compared in the ideal model).
func (r *vRelay) box(id []byte) int {
	r.mu.Lock()
	defer r.mu.Unlock()
	for i, known := range r.ids {
		if vIdealEq(id, known) {
			return i
		}
	}
	cp := make([]byte, len(id))
	copy(cp, id)
	r.ids = append(r.ids, cp)
	r.boxes = append(r.boxes, make(chan []byte, 256))
	return len(r.ids) - 1
}

func (r *vRelay) chanOf(i int) chan []byte {
	r.mu.Lock()
	defer r.mu.Unlock()
	return r.boxes[i]
}

func (r *vRelay) fault(kind string) int {
	r.mu.Lock()
	defer r.mu.Unlock()
	if r.skip > 0 {
		r.skip--
		return 0
	}
	if r.budget <= 0 {
		return 0
	}
	r.budget--
	// 0 ok, 1 stream error, 2 drop, 3 relay restart (send only: the Send fails
	// and every stream opened so far fails its pending or next operation)
	if kind == "send" {
		return vIntRange("relay_"+kind, 0, 3)
	}
	return vIntRange("relay_"+kind, 0, 1)
}

func (r *vRelay) NewCipherBox(ctx context.Context, in *hashmailrpc.CipherBoxAuth, opts ...grpc.CallOption) (*hashmailrpc.CipherInitResp, error) {
	r.mu.Lock()
	r.creates++
	r.mu.Unlock()
	return &hashmailrpc.CipherInitResp{}, nil
}

func (r *vRelay) DelCipherBox(ctx context.Context, in *hashmailrpc.CipherBoxAuth, opts ...grpc.CallOption) (*hashmailrpc.DelCipherBoxResp, error) {
	// deleting a mailbox is a relay call like any other: it may fail
	if r.delFail && vBool("relay_del_fails") {
		return nil, vErrStream
	}
	return &hashmailrpc.DelCipherBoxResp{}, nil
}

func (r *vRelay) SendStream(ctx context.Context, opts ...grpc.CallOption) (hashmailrpc.HashMail_SendStreamClient, error) {
	if r.refused() {
		return nil, vErrStream
	}
	return &vSendStream{r: r, ctx: ctx, epoch: r.epoch()}, nil
}

func (r *vRelay) RecvStream(ctx context.Context, in *hashmailrpc.CipherBoxDesc, opts ...grpc.CallOption) (hashmailrpc.HashMail_RecvStreamClient, error) {
	if r.refused() {
		return nil, vErrStream
	}
	return &vRecvStream{r: r, ctx: ctx, box: r.box(in.StreamId), epoch: r.epoch()}, nil
}

type vSendStream struct {
	grpc.ClientStream
	r     *vRelay
	ctx   context.Context
	epoch chan struct{}
	dead  bool
}

func (s *vSendStream) Send(m *hashmailrpc.CipherBox) error {
	select {
	case <-s.ctx.Done():
		return s.ctx.Err()
	default:
	}
	select {
	case <-s.epoch:
		s.dead = true
	default:
	}
	if s.dead {
		return vErrStream
	}
	s.r.mu.Lock()
	stalled := s.r.stalled
	s.r.mu.Unlock()
	if stalled {
		<-s.ctx.Done()
		return s.ctx.Err()
	}
	switch s.r.fault("send") {
	case 1:
		s.dead = true
		return vErrStream
	case 2:
		return nil
	case 3:
		s.dead = true
		s.r.restart()
		return vErrStream
	}
	s.r.mu.Lock()
	s.r.seen = append(s.r.seen, m.Msg)
	s.r.sends++
	s.r.mu.Unlock()
	s.r.chanOf(s.r.box(m.Desc.StreamId)) <- m.Msg
	return nil
}

func (s *vSendStream) CloseAndRecv() (*hashmailrpc.CipherBoxDesc, error) { return nil, nil }
func (s *vSendStream) CloseSend() error                                  { return nil }

type vRecvStream struct {
	grpc.ClientStream
	r     *vRelay
	ctx   context.Context
	box   int
	epoch chan struct{}
	dead  bool
}

func (s *vRecvStream) Recv() (*hashmailrpc.CipherBox, error) {
	if s.dead {
		return nil, vErrStream
	}
	if s.r.fault("recv") == 1 {
		s.dead = true
		return nil, s.r.recvErr()
	}
	select {
	case b := <-s.r.chanOf(s.box):
		if s.box >= 2 && s.r.truncates() && len(b) > 1 {
			b = b[:1]
		}
		return &hashmailrpc.CipherBox{Msg: b}, nil
	case <-s.epoch:
		s.dead = true
		return nil, vErrStream
	case <-s.ctx.Done():
		return nil, s.ctx.Err()
	}
}

func (s *vRecvStream) CloseSend() error { return nil }
