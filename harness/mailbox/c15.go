//go:build verif

package mailbox

// vTwoRecords: the initiator writes two records of symbolic lengths l1, l2
// (0..65535) through w; returns the plaintext streams.
type vStreamSpec struct {
	p1, p2 []byte
	l1, l2 int
}

func (s *vStreamSpec) at(pos int) byte {
	if pos < s.l1 {
		return s.p1[pos]
	}
	return s.p2[pos-s.l1]
}

func (s *vStreamSpec) total() int { return s.l1 + s.l2 }

func vSpec(minLen int) *vStreamSpec {
	s := &vStreamSpec{l1: vInt("len1"), l2: vInt("len2")}
	vAssume(s.l1 >= minLen && s.l1 <= 65535 && s.l2 >= minLen && s.l2 <= 65535)
	s.p1 = vStream("p1", s.l1)
	s.p2 = vStream("p2", s.l2)
	return s
}

// vReadCheck performs `reads` Read calls with symbolic buffer sizes >= 1 and
// checks the stream contract against the written stream.
func vReadCheck(read func([]byte) (int, error), s *vStreamSpec, reads int) {
	pos := 0
	for i := 0; i < reads; i++ {
		m := vInt("bufsize")
		vAssume(m >= 1 && m <= 70000)
		buf := vWindow(m)
		if pos >= s.total() {
			return
		}
		n, err := read(buf)
		vReach("read")
		vAssert(err == nil, "Read failed on a healthy stream with unread data")
		if err != nil {
			return
		}
		vAssert(n >= 0 && n <= m, "Read reported more bytes than the buffer holds")
		if n < 0 || n > m {
			return
		}
		vAssert(pos+n <= s.total(), "Read returned more bytes than were written")
		j := vInt("j")
		if j >= 0 && j < n && pos+j < s.total() {
			vAssert(buf[j] == s.at(pos+j), "bytes read differ from the bytes written at the same stream offset (lost, duplicated or reordered)")
		}
		// progress: with data left and a non-empty buffer something is returned,
		// unless the current record is empty
		pos += n
	}
}

// VH_C15_GrpcRead: NoiseGrpcConn, two records, three reads with arbitrary
// buffer sizes.
func VH_C15_GrpcRead() {
	ini, rsp := vMachines()
	s := vSpec(1)
	wire := &vPipeConn{out: make([]byte, 0, vParam("wirecap", 140000))}
	wc := &NoiseGrpcConn{ProxyConn: wire, noise: ini}
	n, err := wc.Write(s.p1)
	vAssert(err == nil && n == s.l1, "Write of a record-sized payload failed or was short")
	n, err = wc.Write(s.p2)
	vAssert(err == nil && n == s.l2, "Write of a record-sized payload failed or was short")
	rc := &NoiseGrpcConn{ProxyConn: &vPipeConn{buf: wire.out}, noise: rsp}
	vReadCheck(rc.Read, s, vParam("reads", 3))
}

// VH_C15_TcpRead: NoiseConn likewise.
func VH_C15_TcpRead() {
	ini, rsp := vMachines()
	s := vSpec(1)
	wire := &vPipeConn{out: make([]byte, 0, vParam("wirecap", 140000))}
	wc := &NoiseConn{conn: wire, noise: ini}
	n, err := wc.Write(s.p1)
	vAssert(err == nil && n == s.l1, "Write failed or was short")
	n, err = wc.Write(s.p2)
	vAssert(err == nil && n == s.l2, "Write failed or was short")
	rc := &NoiseConn{conn: &vPipeConn{buf: wire.out}, noise: rsp}
	vReadCheck(rc.Read, s, vParam("reads", 3))
}

// ---------------------------------------------------------------------------
// Inductive steps: arbitrary carry-over state, one new record on the wire,
// one Read with an arbitrary buffer size. Invariant: the carry-over buffer
// holds exactly the unread tail of the current record.

// vOneRecord writes one record of symbolic length through the initiator and
// returns (plaintext, wire bytes).
func vOneRecord(ini *Machine, minLen int) ([]byte, []byte) {
	l := vInt("reclen")
	vAssume(l >= minLen && l <= 65535)
	p := vStream("rec", l)
	w := &vPartialWriter{log: make([]byte, 0, vParam("wirecap", 70000))}
	vAssert(ini.WriteMessage(p) == nil, "WriteMessage failed")
	n, err := ini.Flush(w)
	vAssert(err == nil && n == l, "Flush failed")
	return p, w.log
}

// vStepCheck: the unread stream is tail||rec; Read returned n bytes in buf.
// rest() must be the carry-over after the call; consumed tells whether the
// record was taken off the wire.
func vStepCheck(tail, rec, buf []byte, n int, err error, m int, carry []byte, wireLeft int, wireLen int) {
	vReach("step")
	vAssert(err == nil, "Read failed on a healthy stream with unread data")
	if err != nil {
		return
	}
	vAssert(n >= 0 && n <= m, "Read reported more bytes than the buffer holds")
	if n < 0 || n > m {
		return
	}
	t := len(tail)
	consumed := wireLeft == 0
	vAssert(consumed || wireLeft == wireLen, "a record was only partly taken off the wire")
	j := vInt("j")
	if t > 0 {
		// bytes come from the carry-over first
		vAssert(!consumed, "a new record was read although carried-over bytes were pending")
		vAssert(n <= t, "Read returned more than the carried-over bytes")
		vAssert(n >= 1 || m == 0, "Read returned nothing although bytes were pending")
		if j >= 0 && j < n && j < t {
			vAssert(buf[j] == tail[j], "bytes read differ from the pending bytes")
		}
		vScribble(buf)
		vAssert(len(carry) == t-n, "carry-over after the read is not the unread tail (bytes lost or duplicated)")
		k := vInt("k")
		if k >= 0 && k < len(carry) && n+k < t {
			vAssert(carry[k] == tail[n+k], "carry-over bytes differ from the unread tail")
		}
		return
	}
	vAssert(consumed, "no record was read although nothing was pending")
	r := len(rec)
	vAssert(n <= r, "Read returned more bytes than the record holds")
	vAssert(n >= 1 || r == 0, "Read returned nothing from a non-empty record")
	if j >= 0 && j < n && j < r {
		vAssert(buf[j] == rec[j], "bytes read differ from the record")
	}
	vScribble(buf)
	vAssert(len(carry) == r-n, "carry-over after the read is not the unread tail of the record (bytes lost or duplicated)")
	k := vInt("k")
	if k >= 0 && k < len(carry) && n+k < r {
		vAssert(carry[k] == rec[n+k], "carry-over bytes differ from the unread tail of the record")
	}
}

func vTail() []byte {
	t := vInt("taillen")
	vAssume(t >= 0 && t <= 65535)
	return vStream("tail", t)
}

func vBuf() ([]byte, int) {
	m := vInt("bufsize")
	vAssume(m >= 1 && m <= 70000)
	return vWindow(m), m
}

// vWindow returns a read buffer of length m that is a window of a larger
// allocation (70000 bytes of spare capacity), as the buffers handed to
// Read by io.ReadFull(conn, scratch[:4]), io.CopyN or a framing reader with
// one scratch array are. Read may use len(b) bytes, not cap(b).
func vWindow(m int) []byte {
	return make([]byte, m, m+70000)
}

// vScribble: once Read has returned, the buffer (all of its backing array) is
// the caller's again: it composes its reply there, wipes it, hands it back to a
// pool. Whatever the connection still has to deliver must not live in it.
func vScribble(buf []byte) {
	full := buf[:cap(buf)]
	copy(full, vStream("scribble", len(full)))
}

// vBeyond: nothing was written behind the window.
func vBeyond(buf []byte) {
	full := buf[:cap(buf)]
	i := vInt("beyond")
	if i >= len(buf) && i < len(full) {
		vAssert(full[i] == 0, "Read wrote behind the end of the buffer it was given (len(b), not cap(b), is what the caller offered)")
	}
}

// VH_C15_GrpcStep: NoiseGrpcConn.Read.
func VH_C15_GrpcStep() {
	ini, rsp := vMachines()
	rec, wire := vOneRecord(ini, 1)
	pc := &vPipeConn{buf: wire}
	c := &NoiseGrpcConn{ProxyConn: pc, noise: rsp, nextMsg: vTail()}
	tail := c.nextMsg
	buf, m := vBuf()
	n, err := c.Read(buf)
	vStepCheck(tail, rec, buf, n, err, m, c.nextMsg, len(wire)-pc.off, len(wire))
}

// vCtl is a controlConn whose ReceiveControlMsg delivers one MsgData record.
type vCtl struct {
	vPipeConn
	raw      []byte
	next     []byte // delivered by the second call
	more     [][]byte // delivered by the third, fourth, ... call
	received int
}

func (c *vCtl) ReceiveControlMsg(m ControlMsg) error {
	c.received++
	switch c.received {
	case 1:
		return m.Deserialize(c.raw)
	case 2:
		if c.next != nil {
			return m.Deserialize(c.next)
		}
	default:
		if i := c.received - 3; i >= 0 && i < len(c.more) {
			return m.Deserialize(c.more[i])
		}
	}
	return vErrTimeout
}

// VH_C15_EmptyRecord: a zero-length write by the peer must not surface as an
// error (io.EOF) on a healthy stream: the reader either returns (0, nil) or
// goes on to the next record.
func VH_C15_EmptyRecord() {
	ini, rsp := vMachines()
	w := &vPartialWriter{log: make([]byte, 0, vParam("wirecap", 70000))}
	vAssert(ini.WriteMessage(nil) == nil, "WriteMessage(empty) failed")
	_, err := ini.Flush(w)
	vAssert(err == nil, "Flush failed")
	l := vInt("reclen")
	vAssume(l >= 1 && l <= 65535)
	rec := vStream("rec", l)
	vAssert(ini.WriteMessage(rec) == nil, "WriteMessage failed")
	_, err = ini.Flush(w)
	vAssert(err == nil, "Flush failed")
	buf, _ := vBuf()
	var n int
	switch vIntRange("conn", 0, 1) {
	case 0:
		c := &NoiseGrpcConn{ProxyConn: &vPipeConn{buf: w.log}, noise: rsp}
		n, err = c.Read(buf)
	case 1:
		c := &NoiseConn{conn: &vPipeConn{buf: w.log}, noise: rsp}
		n, err = c.Read(buf)
	}
	vReach("empty-record")
	vAssert(err == nil, "a zero-length record surfaced as an error on a healthy stream")
	if err == nil && n > 0 {
		vAssert(buf[0] == rec[0], "bytes after an empty record differ")
	}
}

// VH_C15_KitEmpty: the same for connKit (an empty MsgData payload).
func VH_C15_KitEmpty() {
	raw, err := NewMsgData(ProtocolVersion, nil).Serialize()
	vAssert(err == nil, "MsgData.Serialize failed")
	next, err := NewMsgData(ProtocolVersion, []byte{7}).Serialize()
	vAssert(err == nil, "MsgData.Serialize failed")
	ctl := &vCtl{raw: raw, next: next}
	k := &connKit{impl: ctl}
	buf, _ := vBuf()
	n, rerr := k.Read(buf)
	vReach("kit-empty")
	vAssert(rerr == nil, "an empty control message surfaced as an error on a healthy stream")
	vAssert(rerr != nil || n == 0 || (n == 1 && buf[0] == 7), "bytes after an empty control message differ")
}

// VH_C15_TcpWrite: NoiseConn.Write with a symbolic length up to 3*65535+1
// chunks transparently: n == len(b), the records concatenate to b.
func VH_C15_TcpWrite() {
	ini, rsp := vMachines()
	l := vInt("len")
	vAssume(l >= 0 && l <= vParam("maxwrite", 3*65535+1))
	p := vStream("p", l)
	wire := &vPipeConn{out: make([]byte, 0, vParam("wirecap", 200000))}
	c := &NoiseConn{conn: wire, noise: ini}
	n, err := c.Write(p)
	vReach("tcp-write")
	vAssert(err == nil && n == l, "Write was short or failed (silent truncation)")
	rd := &vPipeConn{buf: wire.out}
	off := 0
	j := vInt("j")
	for i := 0; i < 5 && rd.off < len(rd.buf); i++ {
		m, err := rsp.ReadMessage(rd)
		vAssert(err == nil, "a record written by Write does not decrypt")
		if err != nil {
			return
		}
		vAssert(off+len(m) <= l, "records carry more bytes than were written")
		if j >= 0 && j < len(m) && off+j < l {
			vAssert(m[j] == p[off+j], "record bytes differ from the written bytes at the same offset")
		}
		off += len(m)
	}
	vAssert(rd.off == len(rd.buf), "more than five records for a write of at most 3*65535+1 bytes")
	vAssert(off == l, "records do not add up to the written payload")
}

// VH_C15_GrpcWrite: NoiseGrpcConn.Write above one record is rejected with an
// error and n == 0, nothing reaches the wire; up to one record it is written
// whole.
func VH_C15_GrpcWrite() {
	ini, rsp := vMachines()
	l := vInt("len")
	vAssume(l >= 0 && l <= 70000)
	p := vStream("p", l)
	wire := &vPipeConn{out: make([]byte, 0, vParam("wirecap", 80000))}
	c := &NoiseGrpcConn{ProxyConn: wire, noise: ini}
	n, err := c.Write(p)
	vReach("grpc-write")
	if l > 65535 {
		vAssert(err != nil && n == 0, "oversized write not rejected")
		vAssert(len(wire.out) == 0, "oversized write put bytes on the wire")
		return
	}
	vAssert(err == nil && n == l, "record-sized write failed or was short")
	m, err := rsp.ReadMessage(&vPipeConn{buf: wire.out})
	vAssert(err == nil && len(m) == l, "written record does not decrypt to the same length")
	j := vInt("j")
	if err == nil && j >= 0 && j < l && j < len(m) {
		vAssert(m[j] == p[j], "written record decrypts to different bytes")
	}
}

// VH_C15_KitReads: connKit.Read, behaviourally: a control message of symbolic
// length (1..maxmsg, above the largest frame the Noise layer produces) and a
// short second one are delivered; two Reads with buffers of symbolic sizes
// must hand out the concatenation of the payloads in order - nothing lost,
// duplicated or reordered, never more than the buffer holds, never nothing
// while data is pending. The second Read starts either inside the first
// message (carry-over of arbitrary length) or at the second one. No internal
// field of connKit is touched, so the harness survives a change of its
// buffering representation.
func VH_C15_KitReads() {
	maxmsg := vParam("maxmsg", 70000)
	l1 := vInt("len1")
	vAssume(l1 >= 1 && l1 <= maxmsg)
	m1 := vStream("m1", l1)
	m2 := []byte{0xa1, 0xa2, 0xa3}
	raw1, err := NewMsgData(ProtocolVersion, m1).Serialize()
	vAssert(err == nil, "MsgData.Serialize failed")
	raw2, err := NewMsgData(ProtocolVersion, m2).Serialize()
	vAssert(err == nil, "MsgData.Serialize failed")
	k := &connKit{impl: &vCtl{raw: raw1, next: raw2}}
	pos := 0
	total := l1 + len(m2)
	j := vInt("j")
	for r := 0; r < 2; r++ {
		c := vInt("bufsize")
		vAssume(c >= 1 && c <= 70000)
		buf := vWindow(c)
		n, err := k.Read(buf)
		vAssert(err == nil, "Read failed on a healthy connection with unread data")
		if err != nil {
			return
		}
		vAssert(n >= 1 && n <= c, "Read reported no bytes, or more bytes than the buffer holds")
		vAssert(pos+n <= total, "Read returned more bytes than were written")
		if n < 1 || n > c || pos+n > total {
			return
		}
		if j >= 0 && j < n {
			i := pos + j
			if i < l1 {
				vAssert(buf[j] == m1[i], "bytes read differ from the bytes written (lost, duplicated or reordered)")
			} else {
				vAssert(buf[j] == m2[i-l1], "bytes read after the first message differ from the second message")
			}
		}
		pos += n
	}
	vReach("kit-reads")
}

// VH_C15_TcpDuplex: the TCP-style secured connection used in both directions
// at once, behaviourally: a record of symbolic length arrives; a Read with a
// buffer of symbolic size takes a part of it; the same endpoint then writes a
// short reply; the following Read must continue exactly where the first one
// stopped (reading and writing do not disturb each other), and the reply
// decrypts on the peer.
func VH_C15_TcpDuplex() {
	ini, rsp := vMachines()
	rec, wire := vOneRecord(ini, 1)
	pc := &vPipeConn{buf: wire, out: make([]byte, 0, vParam("wirecap", 100))}
	c := &NoiseConn{conn: pc, noise: rsp}
	j := vInt("j")
	pos := 0
	for r := 0; r < 2 && pos < len(rec); r++ {
		m := vInt("bufsize")
		vAssume(m >= 1 && m <= 70000)
		buf := vWindow(m)
		n, err := c.Read(buf)
		vAssert(err == nil, "Read failed on a healthy stream with unread data")
		if err != nil {
			return
		}
		vAssert(n >= 1 && n <= m && pos+n <= len(rec), "Read reported no bytes, more than the buffer holds, or more than was written")
		if n < 1 || n > m || pos+n > len(rec) {
			return
		}
		if j >= 0 && j < n {
			vAssert(buf[j] == rec[pos+j], "bytes read differ from the bytes written (a write in between disturbed the unread data)")
		}
		pos += n
		if r == 0 {
			reply := vBytes("reply", vIntRange("replylen", 0, 3))
			k, werr := c.Write(reply)
			vAssert(werr == nil && k == len(reply), "Write of a short reply failed")
			got, rerr := ini.ReadMessage(&vPipeConn{buf: pc.out})
			vAssert(rerr == nil && vBytesEq(got, reply), "the reply written between two Reads does not decrypt to what was written")
		}
	}
	vReach("tcp-duplex")
}

// vFlakyConn: a ProxyConn whose Write accepts a symbolic prefix and reports a
// timeout for write call number `failCall` (0-based, -1 never); everything
// accepted is logged as the wire.
type vFlakyConn struct {
	vPipeConn
	failCall int
	calls    int
}

func (c *vFlakyConn) Write(p []byte) (int, error) {
	k := len(p)
	fail := c.calls == c.failCall
	c.calls++
	if fail {
		k = vInt("accept")
		vAssume(k >= 0 && k < len(p))
	}
	c.out = append(c.out, p[:k]...)
	if fail {
		return k, vErrTimeout
	}
	return k, nil
}

// VH_C15_GrpcWriteRetry: writes across a transport timeout. Write(A) succeeds;
// during Write(B) one transport write (header or body, symbolic choice)
// accepts only a symbolic part and times out, so Write(B) returns (nB, err);
// the application - as any net.Conn user may - writes again (C). Whatever the
// three calls reported, the reader never obtains anything but a prefix of
// A[:nA] ++ B[:nB] ++ C[:nC]: bytes that were reported as not written must not
// show up later, and nothing is delivered twice.
func VH_C15_GrpcWriteRetry() {
	ini, rsp := vMachines()
	maxl := vParam("maxlen", 65535)
	var bufs [3][]byte
	var lens [3]int
	for i := range bufs {
		lens[i] = vInt("len")
		vAssume(lens[i] >= 1 && lens[i] <= maxl)
		bufs[i] = vStream("w", lens[i])
	}
	wire := &vFlakyConn{failCall: -1}
	wire.out = make([]byte, 0, 3*(maxl+40))
	c := &NoiseGrpcConn{ProxyConn: wire, noise: ini}
	nA, errA := c.Write(bufs[0])
	vAssert(errA == nil && nA == lens[0], "first write failed on a healthy transport")
	wire.failCall = wire.calls + vIntRange("fail_call", 0, 1)
	nB, errB := c.Write(bufs[1])
	vAssert(nB >= 0 && nB <= lens[1], "Write reported a count outside [0,len]")
	vAssert(errB != nil || nB == lens[1], "short write without an error")
	wire.failCall = -1
	nC, errC := c.Write(bufs[2])
	vAssert(nC >= 0 && nC <= lens[2], "Write reported a count outside [0,len]")
	vAssert(errC != nil || nC == lens[2], "short write without an error")
	vReach("grpc-write-retry")
	if nB < 0 || nB > lens[1] || nC < 0 || nC > lens[2] {
		return
	}
	reported := make([]byte, 0, 3*maxl)
	reported = append(reported, bufs[0][:nA]...)
	reported = append(reported, bufs[1][:nB]...)
	reported = append(reported, bufs[2][:nC]...)
	// the reader takes every complete record it can get
	rd := &vPipeConn{buf: wire.out}
	got := make([]byte, 0, 3*maxl)
	for i := 0; i < 3; i++ {
		m, err := rsp.ReadMessage(rd)
		if err != nil {
			break
		}
		got = append(got, m...)
	}
	vAssert(len(got) <= len(reported), "the reader obtained more bytes than the writer was told it had written (bytes of a write reported as failed were delivered later, or delivered twice)")
	if errC == nil {
		vAssert(len(got) == len(reported), "a write that reported success is not readable by the peer (a new record was started while an earlier one is only partly on the wire, or its key/nonce sequence is out of step)")
	}
	j := vInt("j")
	if j >= 0 && j < len(got) && j < len(reported) {
		vAssert(got[j] == reported[j], "the reader's stream differs from the concatenation of the reported writes")
	}
}

// VH_C15_TcpWriteRetry: the same across a transport timeout for the TCP-style
// connection, which resumes a half-sent record with Flush(). Write(A)
// succeeds; during Write(B) one transport write accepts only a symbolic part
// and times out: Write(B) = (nB, err). The caller retries with the remainder
// B[nB:], as is usual for an io.Writer; if that is refused because a record is
// pending it calls Flush() (whose count covers bytes of the pending record)
// and writes what is still left. The reader's stream is always a prefix of
// what the calls reported - nothing unreported, nothing twice.
func VH_C15_TcpWriteRetry() {
	ini, rsp := vMachines()
	maxl := vParam("maxlen", 65535)
	la, lb := vInt("len"), vInt("len")
	vAssume(la >= 1 && la <= maxl && lb >= 1 && lb <= maxl)
	A, B := vStream("w", la), vStream("w", lb)
	wire := &vFlakyConn{failCall: -1}
	wire.out = make([]byte, 0, 3*(maxl+40))
	c := &NoiseConn{conn: wire, noise: ini}
	nA, errA := c.Write(A)
	vAssert(errA == nil && nA == la, "first write failed on a healthy transport")
	wire.failCall = wire.calls + vIntRange("fail_call", 0, 1)
	nB, errB := c.Write(B)
	wire.failCall = -1
	vAssert(nB >= 0 && nB <= lb, "Write reported a count outside [0,len]")
	vAssert(errB != nil || nB == lb, "short write without an error")
	if nB < 0 || nB > lb {
		return
	}
	reported := make([]byte, 0, 3*maxl)
	reported = append(reported, A[:nA]...)
	reported = append(reported, B[:nB]...)
	rest := B[nB:]
	if errB != nil {
		n2, err2 := c.Write(rest)
		vAssert(n2 >= 0 && n2 <= len(rest), "Write reported a count outside [0,len]")
		if n2 < 0 || n2 > len(rest) {
			return
		}
		reported = append(reported, rest[:n2]...)
		rest = rest[n2:]
		if err2 == ErrMessageNotFlushed {
			vReach("tcp-retry-refused")
			f, ferr := c.Flush()
			vAssert(ferr == nil && f >= 0 && f <= len(rest), "Flush failed on a healthy transport or reported more than was pending")
			if ferr != nil || f < 0 || f > len(rest) {
				return
			}
			reported = append(reported, rest[:f]...)
			rest = rest[f:]
			n3, err3 := c.Write(rest)
			vAssert(err3 == nil && n3 == len(rest), "Write failed after the pending record was flushed")
			if err3 != nil || n3 != len(rest) {
				return
			}
			reported = append(reported, rest...)
		}
	}
	vReach("tcp-write-retry")
	rd := &vPipeConn{buf: wire.out}
	got := make([]byte, 0, 3*maxl)
	for i := 0; i < 4; i++ {
		m, err := rsp.ReadMessage(rd)
		if err != nil {
			break
		}
		got = append(got, m...)
	}
	vAssert(len(got) <= len(reported), "the reader obtained more bytes than the writer was told it had written (bytes delivered twice, or bytes of a failed write delivered later)")
	j := vInt("j")
	if j >= 0 && j < len(got) && j < len(reported) {
		vAssert(got[j] == reported[j], "the reader's stream differs from the concatenation of the reported writes")
	}
}

// VH_C15_KitSequence: control messages of different sizes in a row, empty
// ones among them (a zero-length write of the layer above): data, empty,
// data, empty, empty, data. The bytes connKit.Read hands out are exactly the
// concatenation of the payloads - an empty message contributes nothing (in
// particular not the previous payload again).
func VH_C15_KitSequence() {
	a, b, c := vBytes("a", 2), vBytes("b", 3), vBytes("c", 1)
	ser := func(p []byte) []byte {
		raw, err := NewMsgData(ProtocolVersion, p).Serialize()
		vAssert(err == nil, "MsgData.Serialize failed")
		return raw
	}
	ctl := &vCtl{raw: ser(a), next: ser(nil), more: [][]byte{ser(b), ser([]byte{}), ser(nil), ser(c)}}
	k := &connKit{impl: ctl}
	want := append(append(append([]byte{}, a...), b...), c...)
	var got []byte
	for i := 0; i < 12 && len(got) < len(want)+4; i++ {
		buf := vWindow(4)
		n, err := k.Read(buf)
		if err != nil {
			break
		}
		vAssert(n >= 0 && n <= 4, "Read reported more bytes than the buffer holds")
		if n < 0 || n > 4 {
			return
		}
		got = append(got, buf[:n]...)
	}
	vReach("kit-sequence")
	vAssert(vBytesEq(got, want), "the stream read through connKit is not the concatenation of the control-message payloads (an empty message delivered something, or bytes were lost)")
}
