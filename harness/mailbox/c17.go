//go:build verif

package mailbox

import (
	"github.com/btcsuite/btcd/btcec/v2"
	"github.com/lightningnetwork/lnd/aezeed"
	"github.com/lightningnetwork/lnd/keychain"
)

// VH_C17_EntropyToWords: for a fully symbolic 14-byte entropy (112 symbolic
// bits) words -> entropy gives back the entropy with everything after the
// 110th bit cleared.
func VH_C17_EntropyToWords() {
	var e [NumPassphraseEntropyBytes]byte
	copy(e[:], vBytes("entropy", NumPassphraseEntropyBytes))
	words, err := PassphraseEntropyToMnemonic(e)
	vAssert(err == nil, "PassphraseEntropyToMnemonic failed")
	back := PassphraseMnemonicToEntropy(words)
	vReach("entropy-words")
	for i := 0; i < NumPassphraseEntropyBytes-1; i++ {
		vAssert(back[i] == e[i], "mnemonic round trip changed one of the 110 significant bits")
	}
	vAssert(back[13] == e[13]&0xfc, "last byte is not the entropy with the two unused bits cleared")
}

// VH_C17_WordsToEntropy: for every 10-word phrase from the word list (10
// symbolic indices 0..2047) entropy -> words gives back the phrase.
func VH_C17_WordsToEntropy() {
	var phrase [NumPassphraseWords]string
	var idx [NumPassphraseWords]int
	for i := range phrase {
		idx[i] = vInt("word")
		vAssume(idx[i] >= 0 && idx[i] < 2048)
		phrase[i] = vTableString(aezeed.DefaultWordList, idx[i])
	}
	e := PassphraseMnemonicToEntropy(phrase)
	vAssert(e[13]&0x03 == 0, "bits beyond the 110th are not zero")
	words, err := PassphraseEntropyToMnemonic(e)
	vReach("words-entropy")
	vAssert(err == nil, "PassphraseEntropyToMnemonic failed")
	for i := range phrase {
		vAssert(words[i] == phrase[i], "entropy round trip changed a word of the phrase")
	}
}

// VH_C17_NewPassphrase: the generated (words, entropy) pair is related by the
// codec: the words decode to exactly the entropy handed out.
func VH_C17_NewPassphrase() {
	words, entropy, err := NewPassphraseEntropy()
	vAssert(err == nil, "NewPassphraseEntropy failed")
	back := PassphraseMnemonicToEntropy(words)
	vReach("new-passphrase")
	vAssert(back == entropy, "generated words do not decode to the generated entropy")
}

// VH_C17_Direction: for an arbitrary 64-byte session id the client's send
// stream is the server's receive stream and vice versa, the two directions
// differ, and only in the lowest bit of the last byte.
func VH_C17_Direction() {
	var sid [64]byte
	copy(sid[:], vBytes("sid", 64))
	// what NewServerConn and NewClientConn compute
	srvRecv, srvSend := GetSID(sid, false), GetSID(sid, true)
	cliRecv, cliSend := GetSID(sid, true), GetSID(sid, false)
	vReach("direction")
	vAssert(cliSend == srvRecv && cliRecv == srvSend, "client send stream is not the server receive stream (or vice versa)")
	vAssert(srvRecv != srvSend, "both directions share one stream")
	for i := 0; i < 63; i++ {
		vAssert(srvRecv[i] == srvSend[i] && srvSend[i] == sid[i], "stream ids differ outside the last byte")
	}
	vAssert(srvRecv[63]^srvSend[63] == 1, "stream ids do not differ in exactly the lowest bit")
}

// VH_C17_SID: both parties derive the same session id: from the passphrase
// entropy before pairing (all 14 bytes matter), from the static-key exchange
// after; distinct secrets give distinct ids (under collision freedom).
func VH_C17_SID() {
	ck, sk := vPrivKey("cli_static"), vPrivKey("srv_static")
	vAssume(!vSamePrivKey(ck, sk))
	pwC, pwS := vBytes("pw_c", 14), vBytes("pw_s", 14)
	c := NewConnData(&keychain.PrivKeyECDH{PrivKey: ck}, nil, pwC, nil, nil, nil)
	s := NewConnData(&keychain.PrivKeyECDH{PrivKey: sk}, nil, pwS, nil, nil, nil)
	sidC, err1 := c.SID()
	sidS, err2 := s.SID()
	vAssert(err1 == nil && err2 == nil, "SID failed")
	vReach("sid-passphrase")
	same := vBytesEq(pwC, pwS)
	vAssert(vIdealEq(sidC[:], sidS[:]) == same, "passphrase session ids agree iff the passphrases agree - violated")
	// after pairing
	vAssert(c.SetRemote(sk.PubKey()) == nil && s.SetRemote(ck.PubKey()) == nil, "SetRemote failed")
	kC, err1 := c.SID()
	kS, err2 := s.SID()
	vAssert(err1 == nil && err2 == nil, "SID failed")
	vReach("sid-keys")
	vAssert(vIdealEq(kC[:], kS[:]), "paired parties derive different key-based session ids")
	vAssert(!vIdealEq(kC[:], sidC[:]), "key-based session id equals the passphrase session id")
	vAssert(c.HandshakePattern().Name == KK && s.HandshakePattern().Name == KK, "paired parties do not switch to the key-based pattern")
	// a third party with another key derives a different id
	// (the other key may be the first client's key negated: the same x
	// coordinate, so every x-only view of the two public keys coincides)
	var other *btcec.PrivateKey = vPrivKey("other")
	if vBool("other_is_negated_client_key") {
		other = vNegPrivKey(ck)
	}
	vAssume(!vSamePrivKey(other, ck) && !vSamePrivKey(other, sk))
	o := NewConnData(&keychain.PrivKeyECDH{PrivKey: other}, sk.PubKey(), pwC, nil, nil, nil)
	kO, _ := o.SID()
	vAssert(!vIdealEq(kO[:], kS[:]), "a different client key derives the same key-based session id")
	// the identifier follows the stored key: the server, re-paired with the
	// other client, is where that client looks for it and no longer where
	// the first client does
	vAssert(s.SetRemote(other.PubKey()) == nil, "SetRemote failed")
	kS2, err := s.SID()
	vAssert(err == nil, "SID failed")
	vAssert(vIdealEq(kS2[:], kO[:]), "after the stored remote key changed the session id is not the one the new peer derives")
	vAssert(!vIdealEq(kS2[:], kS[:]), "different static-key secrets give the same session id (identifier did not follow the key)")
}

// VH_C17_SIDCallbacks: the key-store callback as part of the picture. The
// listener's onRemoteStatic callback persists the key; while it runs, the
// accept loop may already ask for the session id (here: the callback itself
// does), and on a later reconnect - every version-2 handshake calls SetRemote
// again - the callback may fail (storage error). Neither may derail the
// rendezvous: after the pairing both parties derive the key-based id, and a
// failed re-store leaves the party paired (key-based pattern, same id).
func VH_C17_SIDCallbacks() {
	ck, sk := vPrivKey("cli_static"), vPrivKey("srv_static")
	vAssume(!vSamePrivKey(ck, sk))
	pw := vBytes("pw", 14)
	pw2 := make([]byte, 14)
	copy(pw2, pw)
	calls := 0
	failSecond := vBool("store_fails_on_reconnect")
	var s *ConnData
	s = NewConnData(&keychain.PrivKeyECDH{PrivKey: sk}, nil, pw, nil, func(k *btcec.PublicKey) error {
		calls++
		// the accept loop asking for the id while the key is being stored
		_, _ = s.SID()
		if calls >= 2 && failSecond {
			return vErrTimeout
		}
		return nil
	}, nil)
	c := NewConnData(&keychain.PrivKeyECDH{PrivKey: ck}, nil, pw2, nil, nil, nil)
	sid0, _ := s.SID()
	vAssert(s.SetRemote(ck.PubKey()) == nil && c.SetRemote(sk.PubKey()) == nil, "SetRemote failed")
	kS, err1 := s.SID()
	kC, err2 := c.SID()
	vAssert(err1 == nil && err2 == nil, "SID failed")
	vReach("sid-callbacks")
	vAssert(vIdealEq(kS[:], kC[:]), "after the pairing the listener is not at the key-derived rendezvous its peer uses (session id read while the key was being stored)")
	vAssert(!vIdealEq(kS[:], sid0[:]), "the listener still uses the passphrase rendezvous after the pairing")
	// a reconnect: SetRemote with the same key, the store may fail
	err := s.SetRemote(ck.PubKey())
	vAssert((err != nil) == failSecond, "SetRemote did not report the key-store result")
	vReach("sid-restore")
	vAssert(s.RemoteKey() != nil && s.HandshakePattern().Name == KK, "a failed re-store of the key un-paired the listener: a client with only the passphrase would be admitted again")
	kS2, err := s.SID()
	vAssert(err == nil && vIdealEq(kS2[:], kC[:]), "the listener left the key-derived rendezvous after a reconnect")
}
