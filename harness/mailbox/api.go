//go:build verif

// Harness API. In the symbolic engine these functions are intercepted by name;
// the bodies below are the native replay semantics: values come from the model
// file named by $VERIF_MODEL (JSON object name -> value).
package mailbox

import (
	"bytes"
	"encoding/json"
	"fmt"
	"math"
	"os"
	"runtime"
	"runtime/debug"
	"strconv"
	"strings"
	"sync"
	"time"
)

var (
	vModel     map[string]interface{}
	vNameCount = map[string]int{}
	vFailures  []string
	vClock     time.Duration
	vMu        sync.Mutex // harness goroutines draw inputs and record failures concurrently
)

func vLoadModel() {
	vMu.Lock()
	defer vMu.Unlock()
	if vModel != nil {
		return
	}
	vModel = map[string]interface{}{}
	if f := os.Getenv("VERIF_MODEL"); f != "" {
		b, err := os.ReadFile(f)
		if err != nil {
			panic(err)
		}
		var top map[string]interface{}
		if err := json.Unmarshal(b, &top); err != nil {
			panic(err)
		}
		if m, ok := top["model"].(map[string]interface{}); ok {
			vModel = m
		} else {
			vModel = top
		}
	}
}

func vResetReplay() {
	vMu.Lock()
	defer vMu.Unlock()
	vNameCount = map[string]int{}
	vFailures = nil
}

func vUniq(name string) string {
	vMu.Lock()
	defer vMu.Unlock()
	n := vNameCount[name]
	vNameCount[name] = n + 1
	if n == 0 {
		return name
	}
	return fmt.Sprintf("%s#%d", name, n)
}

func vNum(name string) uint64 {
	vLoadModel()
	v, ok := vModel[vUniq(name)]
	if !ok {
		return 0
	}
	switch x := v.(type) {
	case float64:
		return uint64(int64(x))
	case string:
		u, err := strconv.ParseUint(x, 10, 64)
		if err != nil {
			i, _ := strconv.ParseInt(x, 10, 64)
			return uint64(i)
		}
		return u
	case bool:
		if x {
			return 1
		}
	}
	return 0
}

func vU8(name string) uint8   { return uint8(vNum(name)) }
func vU16(name string) uint16 { return uint16(vNum(name)) }
func vU32(name string) uint32 { return uint32(vNum(name)) }
func vU64(name string) uint64 { return vNum(name) }
func vInt(name string) int    { return int(vNum(name)) }
func vI64(name string) int64  { return int64(vNum(name)) }
func vBool(name string) bool  { return vNum(name) != 0 }

func vIntRange(name string, lo, hi int) int {
	v := int(int64(vNum(name)))
	if v < lo || v > hi {
		return lo
	}
	return v
}

func vBytes(name string, n int) []byte {
	base := vUniq(name)
	b := make([]byte, n)
	vLoadModel()
	for i := range b {
		if v, ok := vModel[fmt.Sprintf("%s[%d]", base, i)]; ok {
			if f, ok := v.(float64); ok {
				b[i] = byte(f)
			}
		}
	}
	return b
}

func vStream(name string, n int) []byte {
	vLoadModel()
	b := make([]byte, n)
	uname := vUniq(name)
	// The model carries the first bytes of a stream only. Everything behind
	// them gets a pattern that depends on the stream and the position, so that
	// two different streams differ natively almost everywhere (a replay has to
	// reproduce the failed assertion on these inputs, not the solver's witness
	// index); any assertion that fails natively fails on concrete inputs of
	// the real code.
	h := uint32(2166136261)
	for i := 0; i < len(uname); i++ {
		h = (h ^ uint32(uname[i])) * 16777619
	}
	for i := range b {
		b[i] = byte((h + uint32(i)*2654435761) >> 24)
	}
	if v, ok := vModel[uname].(map[string]interface{}); ok {
		if bs, ok := v["bytes"].([]interface{}); ok {
			for i := range bs {
				if i < n {
					b[i] = byte(bs[i].(float64))
				}
			}
		}
	}
	return b
}

type vAssumeFailed struct{}

func vAssume(c bool) {
	if !c {
		panic(vAssumeFailed{})
	}
}

func vAssert(c bool, msg string) {
	if !c {
		vFail(msg)
	}
}

func vFail(msg string) {
	vMu.Lock()
	vFailures = append(vFailures, msg)
	vMu.Unlock()
}
func vReach(label string) {}

// vSynctest is set by the replay driver when the harness runs inside a
// testing/synctest bubble: virtual time then advances by sleeping.
var vSynctest bool

func vAdvance(d time.Duration) {
	if d < 0 {
		panic(vAssumeFailed{})
	}
	vClock += d
	if vSynctest {
		time.Sleep(d)
	}
}
func vF32(name string) float32 { return math.Float32frombits(uint32(vNum(name))) }
func vLiveTimers() int         { return 0 }
func vLiveTickers() int        { return 0 }
func vNowNs() int64            { return int64(vClock) }
func vIsSymbolicRun() bool     { return false }
func vPopcount8(x uint8) int {
	n := 0
	for ; x != 0; x &= x - 1 {
		n++
	}
	return n
}
func vTableString(table []string, idx int) string { return table[idx] }

func vParam(name string, def int) int {
	vLoadModel()
	if v, ok := vModel["@param:"+name].(float64); ok {
		return int(v)
	}
	return def
}

func vIdealEq(a, b []byte) bool { return bytes.Equal(a, b) }

// vSingleP natively: one P, so that a sync.Pool hands a buffer that was just
// put back to the next Get (the engine models the pool as a LIFO free list).
// The garbage collector empties pools, so it is switched off for the replay.
func vSingleP() { runtime.GOMAXPROCS(1); debug.SetGCPercent(-1) }

// vNonceReuse natively: not observable (the harnesses pair it with an
// observable condition).
func vNonceReuse() bool { return false }

// vMentions natively: does b contain a run of >= 8 bytes of secret?
func vMentions(b, secret []byte) bool {
	if len(secret) < 8 {
		return false
	}
	for i := 0; i+8 <= len(secret); i++ {
		if bytes.Contains(b, secret[i:i+8]) {
			return true
		}
	}
	return false
}

// vLiveGoroutines natively: goroutines running code of the repository (not the
// harness itself).
func vLiveGoroutines() int {
	n := 0
	for _, g := range vGoroutines() {
		_ = g
		n++
	}
	return n
}

func vGoroutines() []string {
	buf := make([]byte, 1<<22)
	k := runtime.Stack(buf, true)
	var out []string
	for _, g := range strings.Split(string(buf[:k]), "\n\n") {
		if strings.Contains(g, "lightning-node-connect/") && !strings.Contains(g, "TestVerifReplay") &&
			!strings.Contains(g, ".VH_") && !strings.Contains(g, "vGoroutines") {
			out = append(out, g)
		}
	}
	return out
}

func vGoroutineDump() string { return strings.Join(vGoroutines(), " | ") }
