//go:build verif

package mailbox

import (
	"context"
	"net"
	"time"

	"github.com/btcsuite/btcd/btcec/v2"
	"github.com/lightningnetwork/lnd/keychain"
)

type vSession struct {
	relay    *vRelay
	srv      *Server
	cli      *Client
	srvData  *ConnData
	cliData  *ConnData
	srvNoise *NoiseGrpcConn
	cliNoise *NoiseGrpcConn
	ctx      context.Context
	cancel   func()
	stopped  bool
}

// stop shuts the listener down and cancels the client context, once.
func (s *vSession) stop() {
	if s.stopped {
		return
	}
	s.stopped = true
	s.srv.Close()
	s.cancel()
}

// vNewSession builds the real mailbox Server and Client on top of the
// in-memory relay (the gRPC dial of the constructors is the only thing cut).
func vNewSession(budget int, auth []byte) *vSession {
	s := &vSession{}
	s.ctx, s.cancel = context.WithCancel(context.Background())
	pw := vBytes("pw", 14)
	pw2 := make([]byte, 14)
	copy(pw2, pw)
	sk, ck := vPrivKey("srv_static"), vPrivKey("cli_static")
	vAssume(!vSamePrivKey(sk, ck))
	s.srvData = NewConnData(&keychain.PrivKeyECDH{PrivKey: sk}, nil, pw, auth, nil, nil)
	s.cliData = NewConnData(&keychain.PrivKeyECDH{PrivKey: ck}, nil, pw2, nil, func(*btcec.PublicKey) error { return nil }, func([]byte) error { return nil })
	sid, err := s.srvData.SID()
	vAssert(err == nil, "SID failed")
	s.relay = newRelay(sid, budget)
	s.relay.delFail = vParam("delfail", 0) != 0
	s.relay.refuseOpt = vParam("refuse", 0) != 0
	if vParam("junk", 0) != 0 {
		s.relay.junkAt = vIntRange("relay_truncates_kth_frame_at_new_rendezvous", 0, vParam("junk", 0))
		if s.relay.junkAt == 0 {
			s.relay.junkAt2 = vIntRange("relay_truncates_kth_frame_in_refresh_cycle", 0, vParam("junk", 0)+1)
		}
	}
	if budget > 0 {
		s.relay.skip = vIntRange("relay_skip", 0, vParam("maxskip", 0))
		s.relay.texts = vParam("errtexts", 0) != 0
	}
	sctx, scancel := context.WithCancel(s.ctx)
	s.srv = &Server{serverHost: "relay", client: s.relay, connData: s.srvData, sid: sid, quit: make(chan struct{}), ctx: sctx, cancel: scancel, log: log}
	s.cli, err = NewClient(s.ctx, "relay", s.cliData, func(c *Client) { c.grpcClient = s.relay })
	vAssert(err == nil, "NewClient failed")
	s.srvNoise = NewNoiseGrpcConn(s.srvData)
	s.cliNoise = NewNoiseGrpcConn(s.cliData)
	return s
}

type vConnResult struct {
	conn net.Conn
	err  error
}

// connect runs Accept + ServerHandshake and Dial + ClientHandshake concurrently.
// Once one party has failed, the other one is given horizon_s virtual seconds:
// Accept and Dial wait for a peer by design (the peer's next attempt finds
// them), so a party still there is told to stop and must then return; a party
// that is past Accept/Dial runs under the handshake deadlines and must have
// returned by itself.
func (s *vSession) connect() (srv, cli vConnResult) {
	sc, cc := make(chan vConnResult, 1), make(chan vConnResult, 1)
	srvUp, cliUp := make(chan struct{}), make(chan struct{})
	go func() {
		c, err := s.srv.Accept()
		if err != nil {
			sc <- vConnResult{nil, err}
			return
		}
		close(srvUp)
		nc, _, err := s.srvNoise.ServerHandshake(c)
		if err != nil {
			c.Close() // as gRPC does with a connection whose handshake failed
		}
		sc <- vConnResult{nc, err}
	}()
	go func() {
		c, err := s.cli.Dial(s.ctx, "relay")
		if err != nil {
			cc <- vConnResult{nil, err}
			return
		}
		close(cliUp)
		nc, _, err := s.cliNoise.ClientHandshake(s.ctx, "", c)
		if err != nil {
			c.Close()
		}
		cc <- vConnResult{nc, err}
	}()
	var (
		srvDone, cliDone bool
		giveUp           <-chan time.Time
	)
	for !srvDone || !cliDone {
		select {
		case srv = <-sc:
			srvDone = true
		case cli = <-cc:
			cliDone = true
		case <-giveUp:
			up := cliUp
			if !srvDone {
				up = srvUp
			}
			select {
			case <-up:
				vAssert(false, "one party failed, the other one hangs inside the deadline-guarded Noise handshake")
			default:
			}
			vReach("peer-still-waiting")
			s.stop()
			if !srvDone {
				srv = <-sc
			} else {
				cli = <-cc
			}
			return srv, cli
		}
		if giveUp == nil && ((srvDone && srv.err != nil) || (cliDone && cli.err != nil)) {
			giveUp = time.After(time.Duration(vParam("horizon_s", 300)) * time.Second)
		}
	}
	return srv, cli
}

// VH_C05_Composite: the whole stack minus gRPC: real mailbox Server/Client,
// real ServerConn/ClientConn retry loops, two real GBN connections (deployed
// keep-alive and timeout options), the real Noise handshake and record layer
// (ideal primitives), over an in-memory relay that may fail or drop its first
// `faults` operations. Bytes written on one side arrive intact on the other,
// in both directions, and every message the relay sees is ciphertext or
// protocol framing, never application plaintext.
func VH_C05_Composite() {
	auth := vBytes("auth", 3)
	s := vNewSession(vParam("faults", 0), auth)
	srv, cli := s.connect()
	if srv.err != nil || cli.err != nil {
		// A relay fault during the (deadline-guarded) handshakes may fail the
		// attempt: that is the "fails visibly" outcome, gRPC dials again. The
		// party that believes it is connected must not hang though.
		vReach("attempt-failed-visibly")
		vAssert(vParam("faults", 0) > 0, "connection through a fault-free relay could not be established")
		for _, r := range []vConnResult{srv, cli} {
			if r.err != nil || r.conn == nil {
				continue
			}
			failed := make(chan bool, 1)
			c := r.conn
			go func() {
				buf := make([]byte, 4)
				_, err := c.Read(buf)
				failed <- err != nil
			}()
			select {
			case f := <-failed:
				vAssert(f, "a party read data although its peer's handshake failed")
			case <-time.After(time.Duration(vParam("horizon_s", 300)) * time.Second):
				vAssert(false, "one party failed the handshake, the other one hangs (no visible failure)")
			}
		}
		s.stop()
		return
	}
	vReach("connected")
	up := vBytes("up", vIntRange("uplen", 1, vParam("maxwrite", 3)))
	down := vBytes("down", vIntRange("downlen", 1, vParam("maxwrite", 3)))
	// 0: intact, 1: bytes differ, 2: the connection failed visibly (error).
	done := make(chan int, 2)
	cmp := func(ok bool) int {
		if ok {
			return 0
		}
		return 1
	}
	go func() {
		n, err := cli.conn.Write(up)
		if err != nil {
			cli.conn.Close() // an application drops a failed connection
			done <- 2
			return
		}
		vAssert(n == len(up), "client Write reported a short count without an error")
		buf := make([]byte, 16)
		got := 0
		for got < len(down) {
			k, err := cli.conn.Read(buf[got:])
			if err != nil {
				cli.conn.Close() // an application drops a failed connection
				done <- 2
				return
			}
			got += k
		}
		done <- cmp(got == len(down) && vBytesEq(buf[:got], down))
	}()
	go func() {
		buf := make([]byte, 16)
		got := 0
		for got < len(up) {
			k, err := srv.conn.Read(buf[got:])
			if err != nil {
				srv.conn.Close()
				done <- 2
				return
			}
			got += k
		}
		ok := got == len(up) && vBytesEq(buf[:got], up)
		n, err := srv.conn.Write(down)
		if err != nil {
			srv.conn.Close()
			done <- 2
			return
		}
		vAssert(n == len(down), "server Write reported a short count without an error")
		done <- cmp(ok)
	}()
	timeout := time.After(time.Duration(vParam("horizon_s", 300)) * time.Second)
	failed := false
	for i := 0; i < 2; i++ {
		select {
		case r := <-done:
			vAssert(r != 1, "bytes read from the secured connection differ from the bytes written on the other side")
			if r == 2 {
				// "fails visibly" is an allowed outcome once the relay
				// misbehaved, never on a fault-free relay.
				vAssert(vParam("faults", 0) > 0, "the connection failed although the relay never misbehaved")
				failed = true
			}
		case <-timeout:
			vAssert(false, "transfer neither completed nor failed visibly after relay faults ceased")
			return
		}
	}
	if failed {
		vReach("failed-visibly")
		cli.conn.Close()
		srv.conn.Close()
		s.stop()
		return
	}
	vReach("transferred")
	for _, m := range s.relay.seen {
		vAssert(!vMentions(m, up) && !vMentions(m, down) && !vMentions(m, auth), "a message seen by the relay depends on application plaintext or the auth payload")
	}
	cli.conn.Close()
	srv.conn.Close()
	s.stop()
}

// VH_C12_MailboxClose: Close of the mailbox connections (which is the GBN
// Close underneath) while the relay's streams stall: writes of the closing
// party block inside the transport, as a gRPC stream does when nobody drains
// it. Close must still return within a bounded time, from either side.
func VH_C12_MailboxClose() {
	s := vNewSession(0, vBytes("auth", 3))
	srv, cli := s.connect()
	vAssert(srv.err == nil && cli.err == nil, "connection through a fault-free relay could not be established")
	if srv.err != nil || cli.err != nil {
		return
	}
	s.relay.mu.Lock()
	s.relay.stalled = true
	s.relay.mu.Unlock()
	c := srv.conn
	if vBool("client_closes") {
		c = cli.conn
	}
	if vBool("write_pending") {
		// a write that gets stuck in the stalled transport
		go func() { c.Write([]byte{1}) }()
		time.Sleep(time.Duration(vIntRange("wait_ms", 0, 2)) * 700 * time.Millisecond)
	}
	done := make(chan struct{})
	go func() { c.Close(); close(done) }()
	select {
	case <-done:
		vReach("mailbox-closed")
	case <-time.After(60 * time.Second):
		vAssert(false, "Close of the mailbox connection did not return within a minute while the relay streams stall")
	}
	s.stop()
}
