//go:build verif

package mailbox

import (
	"context"
	"net"
	"time"

	"github.com/btcsuite/btcd/btcec/v2"
	"github.com/lightningnetwork/lnd/keychain"
)

type vSession struct {
	relay    *vRelay
	srv      *Server
	cli      *Client
	srvData  *ConnData
	cliData  *ConnData
	srvNoise *NoiseGrpcConn
	cliNoise *NoiseGrpcConn
	ctx      context.Context
	cancel   func()
}

// vNewSession builds the real mailbox Server and Client on top of the
// in-memory relay (the gRPC dial of the constructors is the only thing cut).
func vNewSession(budget int, auth []byte) *vSession {
	s := &vSession{}
	s.ctx, s.cancel = context.WithCancel(context.Background())
	pw := vBytes("pw", 14)
	pw2 := make([]byte, 14)
	copy(pw2, pw)
	sk, ck := vPrivKey("srv_static"), vPrivKey("cli_static")
	vAssume(!vSamePrivKey(sk, ck))
	s.srvData = NewConnData(&keychain.PrivKeyECDH{PrivKey: sk}, nil, pw, auth, nil, nil)
	s.cliData = NewConnData(&keychain.PrivKeyECDH{PrivKey: ck}, nil, pw2, nil, func(*btcec.PublicKey) error { return nil }, func([]byte) error { return nil })
	sid, err := s.srvData.SID()
	vAssert(err == nil, "SID failed")
	s.relay = newRelay(sid, budget)
	sctx, scancel := context.WithCancel(s.ctx)
	s.srv = &Server{serverHost: "relay", client: s.relay, connData: s.srvData, sid: sid, quit: make(chan struct{}), ctx: sctx, cancel: scancel, log: log}
	s.cli, err = NewClient(s.ctx, "relay", s.cliData, func(c *Client) { c.grpcClient = s.relay })
	vAssert(err == nil, "NewClient failed")
	s.srvNoise = NewNoiseGrpcConn(s.srvData)
	s.cliNoise = NewNoiseGrpcConn(s.cliData)
	return s
}

type vConnResult struct {
	conn net.Conn
	err  error
}

// connect runs Accept + ServerHandshake and Dial + ClientHandshake concurrently.
func (s *vSession) connect() (srv, cli vConnResult) {
	sc, cc := make(chan vConnResult, 1), make(chan vConnResult, 1)
	go func() {
		c, err := s.srv.Accept()
		if err != nil {
			sc <- vConnResult{nil, err}
			return
		}
		nc, _, err := s.srvNoise.ServerHandshake(c)
		sc <- vConnResult{nc, err}
	}()
	go func() {
		c, err := s.cli.Dial(s.ctx, "relay")
		if err != nil {
			cc <- vConnResult{nil, err}
			return
		}
		nc, _, err := s.cliNoise.ClientHandshake(s.ctx, "", c)
		cc <- vConnResult{nc, err}
	}()
	return <-sc, <-cc
}

// VH_C05_Composite: the whole stack minus gRPC: real mailbox Server/Client,
// real ServerConn/ClientConn retry loops, two real GBN connections (deployed
// keep-alive and timeout options), the real Noise handshake and record layer
// (ideal primitives), over an in-memory relay that may fail or drop its first
// `faults` operations. Bytes written on one side arrive intact on the other,
// in both directions, and every message the relay sees is ciphertext or
// protocol framing, never application plaintext.
func VH_C05_Composite() {
	auth := vBytes("auth", 3)
	s := vNewSession(vParam("faults", 0), auth)
	srv, cli := s.connect()
	vAssert(srv.err == nil && cli.err == nil, "connection through the relay could not be established although faults ceased")
	if srv.err != nil || cli.err != nil {
		return
	}
	vReach("connected")
	up := vBytes("up", vIntRange("uplen", 1, vParam("maxwrite", 3)))
	down := vBytes("down", vIntRange("downlen", 1, vParam("maxwrite", 3)))
	done := make(chan bool, 2)
	go func() {
		n, err := cli.conn.Write(up)
		vAssert(err == nil && n == len(up), "client Write failed")
		buf := make([]byte, 16)
		got := 0
		for got < len(down) {
			k, err := cli.conn.Read(buf[got:])
			if err != nil {
				done <- false
				return
			}
			got += k
		}
		done <- got == len(down) && vBytesEq(buf[:got], down)
	}()
	go func() {
		buf := make([]byte, 16)
		got := 0
		for got < len(up) {
			k, err := srv.conn.Read(buf[got:])
			if err != nil {
				done <- false
				return
			}
			got += k
		}
		ok := got == len(up) && vBytesEq(buf[:got], up)
		n, err := srv.conn.Write(down)
		vAssert(err == nil && n == len(down), "server Write failed")
		done <- ok
	}()
	timeout := time.After(time.Duration(vParam("horizon_s", 300)) * time.Second)
	for i := 0; i < 2; i++ {
		select {
		case ok := <-done:
			vAssert(ok, "bytes read from the secured connection differ from the bytes written on the other side")
		case <-timeout:
			vAssert(false, "transfer did not complete after relay faults ceased")
			return
		}
	}
	vReach("transferred")
	for _, m := range s.relay.seen {
		vAssert(!vMentions(m, up) && !vMentions(m, down) && !vMentions(m, auth), "a message seen by the relay depends on application plaintext or the auth payload")
	}
	cli.conn.Close()
	srv.conn.Close()
	s.srv.Close()
	s.cancel()
}
