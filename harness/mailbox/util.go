//go:build verif

package mailbox

import (
	"net"
	"time"
)

// vErrTimeout is a deadline error as the net package reports it (net.Error
// with Timeout() == true), so that code which tells timeouts from other
// failures through errors.As / a type assertion sees one.
type vTimeoutErr struct{}

func (vTimeoutErr) Error() string   { return "verif: i/o timeout" }
func (vTimeoutErr) Timeout() bool   { return true }
func (vTimeoutErr) Temporary() bool { return true }

var vErrTimeout error = vTimeoutErr{}

// vMachines returns two Machines that completed a handshake: both hold the
// same (symbolic) chaining key and ran the real split().
func vMachines() (ini, rsp *Machine) {
	ck := vBytes("ck", 32)
	ini, rsp = &Machine{}, &Machine{}
	ini.initiator = true
	copy(ini.chainingKey[:], ck)
	copy(rsp.chainingKey[:], ck)
	ini.split()
	rsp.split()
	return
}

// vPartialWriter accepts a symbolic prefix of every write (at most `full`
// partial writes, then everything) and logs what it accepted.
type vPartialWriter struct {
	log     []byte
	partial int
	calls   int
	// errOnFull: a call that accepts everything may still report the timeout
	// (the deadline expired as the last byte went out; io.Writer allows it)
	errOnFull bool
}

func (w *vPartialWriter) Write(b []byte) (int, error) {
	w.calls++
	k := len(b)
	partialCall := w.partial > 0
	if w.partial > 0 {
		w.partial--
		k = vInt("accept")
		vAssume(k >= 0 && k <= len(b))
	}
	w.log = append(w.log, b[:k]...)
	if k < len(b) {
		return k, vErrTimeout
	}
	if partialCall && w.errOnFull && len(b) > 0 && vBool("timeout_with_full_write") {
		return k, vErrTimeout
	}
	return k, nil
}

// vPipeConn is an in-memory byte stream implementing ProxyConn.
type vPipeConn struct {
	buf     []byte
	off     int
	maxRead int // if > 0, every Read returns at most a symbolic 1..maxRead bytes
	out     []byte
}

func (c *vPipeConn) Read(p []byte) (int, error) {
	if c.off >= len(c.buf) {
		return 0, vErrTimeout
	}
	q := p
	if c.maxRead > 0 && len(p) > 0 {
		k := vInt("frag")
		vAssume(k >= 1 && k <= c.maxRead && k <= len(p))
		q = p[:k]
	}
	n := copy(q, c.buf[c.off:])
	c.off += n
	return n, nil
}

func (c *vPipeConn) Write(p []byte) (int, error) {
	c.out = append(c.out, p...)
	return len(p), nil
}

func (c *vPipeConn) Close() error                       { return nil }
func (c *vPipeConn) LocalAddr() net.Addr                { return nil }
func (c *vPipeConn) RemoteAddr() net.Addr               { return nil }
func (c *vPipeConn) SetDeadline(t time.Time) error      { return nil }
func (c *vPipeConn) SetReadDeadline(t time.Time) error  { return nil }
func (c *vPipeConn) SetWriteDeadline(t time.Time) error { return nil }
func (c *vPipeConn) ReceiveControlMsg(ControlMsg) error { return nil }
func (c *vPipeConn) SendControlMsg(ControlMsg) error    { return nil }
func (c *vPipeConn) SetRecvTimeout(time.Duration)       {}
func (c *vPipeConn) SetSendTimeout(time.Duration)       {}
