//go:build verif

package mailbox

// This file is the only one that looks inside NoiseConn's read buffering (its
// readBuf field): if that representation changes, only this harness stops
// compiling and is left out; VH_C15_TcpDuplex and the write harnesses state
// the contract behaviourally.

// VH_C15_TcpStep: NoiseConn.Read (bytes.Buffer carry-over, real code).
func VH_C15_TcpStep() {
	ini, rsp := vMachines()
	rec, wire := vOneRecord(ini, vParam("minrec", 1))
	pc := &vPipeConn{buf: wire}
	c := &NoiseConn{conn: pc, noise: rsp}
	tail := vTail()
	c.readBuf.Write(tail)
	buf, m := vBuf()
	n, err := c.Read(buf)
	vStepCheck(tail, rec, buf, n, err, m, c.readBuf.Bytes(), len(wire)-pc.off, len(wire))
}
