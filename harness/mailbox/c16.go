//go:build verif

package mailbox

// VH_C16_Flush: a record of symbolic plaintext length 0..65535; the writer
// accepts an arbitrary prefix of each write for up to `splits` calls (so all
// two-, three-, ... way splits of the wire bytes are instances). Repeated
// Flush emits exactly header||body once, in order, reports exactly the number
// of plaintext bytes, and no new record can be started while one is pending.
func VH_C16_Flush() {
	ini, _ := vMachines()
	l := vInt("len")
	vAssume(l >= 0 && l <= 65535)
	p := vStream("p", l)
	vAssert(ini.WriteMessage(p) == nil, "WriteMessage failed")
	hdr, body := ini.nextHeaderSend, ini.nextBodySend
	vAssert(len(hdr) == 18 && len(body) == l+16, "record is not an 18-byte header plus len+16 body")
	splits := vParam("splits", 3)
	w := &vPartialWriter{log: make([]byte, 0, vParam("logcap", 70000)), partial: splits}
	total := 0
	done := false
	for i := 0; i < splits+2 && !done; i++ {
		n, err := ini.Flush(w)
		vAssert(n >= 0, "Flush reported a negative byte count")
		total += n
		if err == nil {
			done = true
		} else {
			vAssert(err == vErrTimeout, "Flush returned a foreign error")
			pending := len(ini.nextHeaderSend) > 0 || len(ini.nextBodySend) > 0
			vAssert(pending, "Flush failed but nothing is pending")
			vAssert(ini.WriteMessage(p) == ErrMessageNotFlushed, "a new record could be started while one is pending")
		}
	}
	vAssert(done, "record not flushed after the writer stopped failing")
	vReach("flushed")
	vAssert(total == l, "Flush did not report exactly the plaintext length")
	vAssert(len(w.log) == 18+l+16, "bytes on the wire are not header plus body, once")
	j := vInt("j")
	vAssume(j >= 0 && j < len(w.log))
	if j < 18 {
		vAssert(w.log[j] == hdr[j], "header bytes on the wire differ / out of order")
	} else {
		vAssert(w.log[j] == body[j-18], "body bytes on the wire differ / out of order")
	}
	calls := w.calls
	n, err := ini.Flush(w)
	vAssert(n == 0 && err == nil && w.calls == calls, "final Flush is not a no-op")
	vAssert(ini.WriteMessage(p) == nil, "cannot start a new record after a complete flush")
}
