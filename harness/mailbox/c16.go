//go:build verif

package mailbox

// VH_C16_Flush: a record of symbolic plaintext length 0..65535; the writer
// accepts an arbitrary prefix of each write for up to `splits` calls (so all
// two-, three-, ... way splits of the wire bytes are instances). Repeated
// Flush emits exactly header||body once, in order, reports exactly the number
// of plaintext bytes, and no new record can be started while one is pending.
func VH_C16_Flush() {
	ini, _ := vMachines()
	l := vInt("len")
	vAssume(l >= 0 && l <= 65535)
	p := vStream("p", l)
	vAssert(ini.WriteMessage(p) == nil, "WriteMessage failed")
	hdr, body := ini.nextHeaderSend, ini.nextBodySend
	vAssert(len(hdr) == 18 && len(body) == l+16, "record is not an 18-byte header plus len+16 body")
	splits := vParam("splits", 3)
	w := &vPartialWriter{log: make([]byte, 0, vParam("logcap", 140000)), partial: splits, errOnFull: true}
	total := 0
	done := false
	for i := 0; i < splits+2 && !done; i++ {
		n, err := ini.Flush(w)
		vAssert(n >= 0, "Flush reported a negative byte count")
		total += n
		if err == nil {
			done = true
		} else {
			vAssert(err == vErrTimeout, "Flush returned a foreign error")
			// (a writer may report the timeout together with the last
			// bytes: then nothing is pending and the record is out)
			pending := len(ini.nextHeaderSend) > 0 || len(ini.nextBodySend) > 0
			if pending {
				vAssert(ini.WriteMessage(p) == ErrMessageNotFlushed, "a new record could be started while one is pending")
			} else {
				vReach("timeout-with-last-bytes")
				done = true
			}
		}
	}
	vAssert(done, "record not flushed after the writer stopped failing")
	vReach("flushed")
	vAssert(total == l, "Flush did not report exactly the plaintext length")
	vAssert(len(w.log) == 18+l+16, "bytes on the wire are not header plus body, once")
	j := vInt("j")
	vAssume(j >= 0 && j < len(w.log))
	if j < 18 {
		vAssert(w.log[j] == hdr[j], "header bytes on the wire differ / out of order")
	} else {
		vAssert(w.log[j] == body[j-18], "body bytes on the wire differ / out of order")
	}
	calls := w.calls
	var n int
	var err error
	// the next record starts from a clean slate, whatever happened to this one
	next := vBool("next_record_first")
	if !next {
		n, err = ini.Flush(w)
		vAssert(n == 0 && err == nil && w.calls == calls, "final Flush is not a no-op")
	}
	vAssert(ini.WriteMessage(p) == nil, "cannot start a new record after a complete flush")
	w.partial = 0 // the writer is healthy from here on
	n, err = ini.Flush(w)
	vAssert(err == nil && n == l, "Flush of the following record does not report exactly its plaintext length")
	vAssert(len(w.log) == 2*(18+l+16), "the following record is not on the wire once")
}

// VH_C16_HandshakeShortReads: the underlying stream fragments the handshake
// bytes: after a symbolic number of reads, up to `frags` consecutive Reads in
// each direction return only a symbolic part of what was asked for. A valid
// handshake must complete exactly as it does without fragmentation.
func VH_C16_HandshakeShortReads() {
	cfg := &vHSConfig{kk: vBool("kk")}
	if cfg.kk {
		cfg.cMin, cfg.cMax, cfg.sMin, cfg.sMax = 2, 2, 2, 2
	} else {
		v := byte(vIntRange("version", 0, 2))
		cfg.cMin, cfg.cMax, cfg.sMin, cfg.sMax = 0, 2, 0, v
		cfg.cliPW, cfg.srvPW = vSamePW()
	}
	auth := vBytes("auth", 7)
	cfg.auth = auth
	hs, ok := vSetup(cfg)
	vAssert(ok, "machine construction failed")
	frags := vParam("frags", 2)
	switch vIntRange("mode", 0, 3) {
	case 0: // a burst of fragmented reads client -> server
		hs.c2s.fragSkip, hs.c2s.fragBudget = vIntRange("skip_c2s", 0, 6), frags
	case 1: // server -> client
		hs.s2c.fragSkip, hs.s2c.fragBudget = vIntRange("skip_s2c", 0, 6), frags
	case 2: // every read delivers one byte
		hs.c2s.fragAll, hs.s2c.fragAll = 1, 1
	case 3: // every read delivers at most seven bytes
		hs.c2s.fragAll, hs.s2c.fragAll = 7, 7
	}
	vRunHandshake(hs)
	vReach("short-reads")
	vAssert(hs.cli.err == nil && hs.srv.err == nil, "a valid handshake failed because the stream delivered it in fragments")
	if hs.cli.err == nil && hs.srv.err == nil {
		vAgree(hs, auth)
	}
}

// VH_C16_RecordShortReads: a record delivered in fragments decrypts like an
// unfragmented one.
func VH_C16_RecordShortReads() {
	ini, rsp := vMachines()
	rec, wire := vOneRecord(ini, 0)
	pc := &vFragConn{vPipeConn: vPipeConn{buf: wire}, skip: vIntRange("skip", 0, 2), budget: vParam("frags", 2)}
	m, err := rsp.ReadMessage(pc)
	vReach("record-short-reads")
	vAssert(err == nil && len(m) == len(rec), "a valid record failed because the stream delivered it in fragments")
	j := vInt("j")
	if err == nil && j >= 0 && j < len(m) && j < len(rec) {
		vAssert(m[j] == rec[j], "fragmented record decrypts to different bytes")
	}
}

type vFragConn struct {
	vPipeConn
	skip, budget int
}

func (c *vFragConn) Read(p []byte) (int, error) {
	if c.off >= len(c.buf) {
		return 0, vErrTimeout
	}
	q := p
	if len(p) > 1 && len(c.buf)-c.off > 1 {
		if c.skip > 0 {
			c.skip--
		} else if c.budget > 0 {
			c.budget--
			k := vInt("frag")
			vAssume(k >= 1 && k < len(p) && k < len(c.buf)-c.off)
			q = p[:k]
		}
	}
	n := copy(q, c.buf[c.off:])
	c.off += n
	return n, nil
}

// VH_C16_HandshakeLargeAuth: an auth payload larger than one 64 KiB read
// chunk (versions 1 and 2 carry it in act two with a 32-bit length), delivered
// to the initiator in reads of at most 1000, 60000 or 65535 bytes: the
// handshake completes and the initiator holds exactly the payload.
func VH_C16_HandshakeLargeAuth() {
	cfg := &vHSConfig{kk: vBool("kk")}
	if cfg.kk {
		cfg.cMin, cfg.cMax, cfg.sMin, cfg.sMax = 2, 2, 2, 2
	} else {
		v := byte(vIntRange("version", 1, 2))
		cfg.cMin, cfg.cMax, cfg.sMin, cfg.sMax = 0, 2, 0, v
		cfg.cliPW, cfg.srvPW = vSamePW()
	}
	auth := vStream("auth", vParam("authlen", 70000))
	cfg.auth = auth
	hs, ok := vSetup(cfg)
	vAssert(ok, "machine construction failed")
	hs.s2c.fragAll = [3]int{1000, 60000, 65535}[vIntRange("maxread", 0, 2)]
	vRunHandshake(hs)
	vReach("large-auth")
	vAssert(hs.cli.err == nil && hs.srv.err == nil, "a valid handshake with a large auth payload failed because the stream delivered it in fragments")
	if hs.cli.err == nil && hs.srv.err == nil {
		vAgree(hs, auth)
	}
}
