//go:build verif && !goexperiment.synctest

package mailbox

func vQuiesce() {}
