//go:build verif

package mailbox

import "bytes"

// VH_C07_NoiseJunk: a handshake party reads its first incoming act from
// arbitrary bytes (lengths around every field boundary, contents symbolic).
// With the primitives idealised (a parsed key may be valid or not, no forged
// ciphertext authenticates) the act is rejected with an error and nothing
// panics. Both roles, both patterns, all versions.
func VH_C07_NoiseJunk() {
	kk := vBool("kk")
	cfg := &vHSConfig{kk: kk, cMin: 0, cMax: 2, sMin: 0, sMax: 2}
	if kk {
		cfg.cMin, cfg.sMin = 2, 2
	}
	cfg.cliPW, cfg.srvPW = vSamePW()
	cfg.auth = vBytes("auth", 3)
	hs, ok := vSetup(cfg)
	vAssert(ok, "machine construction failed")
	n := [8]int{0, 1, 2, 34, 50, 51, 67, 600}[vIntRange("junklen_idx", 0, 7)]
	junk := vBytes("junk", n)
	var err error
	if vBool("attack_server") {
		// the server reads act 1
		err = hs.srv.m.readMsgPattern(bytes.NewReader(junk), hs.srv.m.pattern.Pattern[0])
	} else {
		// the client has sent act 1 and reads act 2
		var sink bytes.Buffer
		vAssert(hs.cli.m.writeMsgPattern(&sink, hs.cli.m.pattern.Pattern[0]) == nil, "client cannot write act 1")
		err = hs.cli.m.readMsgPattern(bytes.NewReader(junk), hs.cli.m.pattern.Pattern[1])
	}
	vReach("noise-junk")
	vAssert(err != nil, "a handshake act made of arbitrary bytes was accepted")
}

// VH_C07_RecordJunk: the encrypted stream: ReadMessage on arbitrary bytes of
// symbolic length returns an error, never panics.
func VH_C07_RecordJunk() {
	_, rsp := vMachines()
	l := vInt("junklen")
	vAssume(l >= 0 && l <= 70000)
	m, err := rsp.ReadMessage(&vPipeConn{buf: vStream("junk", l)})
	vReach("record-junk")
	vAssert(err != nil && m == nil, "arbitrary bytes were accepted as a record")
}

// VH_C07_KitJunk: connKit.Read on top of an arbitrary control message
// (length 0..maxlen, contents symbolic: the 32-bit length field takes every
// value): an error or data, never a panic.
func VH_C07_KitJunk() {
	n := vIntRange("len", 0, vParam("maxlen", 9))
	ctl := &vCtl{raw: vBytes("raw", n)}
	k := &connKit{impl: ctl}
	buf := make([]byte, vIntRange("bufsize", 1, 3))
	got, err := k.Read(buf)
	vReach("kit-junk")
	vAssert(err != nil || got <= len(buf), "connKit.Read returned more than the buffer holds")
}
