//go:build verif

package mailbox

import (
	"crypto/sha256"
	"encoding/binary"

	"github.com/btcsuite/btcd/btcec/v2"
)

// vPrivKey natively: a real key derived from the model value (equal model
// values give equal keys).
func vPrivKey(name string) *btcec.PrivateKey {
	var b [8]byte
	binary.BigEndian.PutUint64(b[:], vU64(name))
	h := sha256.Sum256(append([]byte("verif-key"), b[:]...))
	k, _ := btcec.PrivKeyFromBytes(h[:])
	return k
}

// vNegPrivKey: the key n - k; its public key is -P (same x coordinate).
func vNegPrivKey(k *btcec.PrivateKey) *btcec.PrivateKey {
	var s btcec.ModNScalar
	s.NegateVal(&k.Key)
	return btcec.PrivKeyFromScalar(&s)
}

func vSamePrivKey(a, b *btcec.PrivateKey) bool { return a.Key.Equals(&b.Key) }

func vSamePubKey(a, b *btcec.PublicKey) bool {
	if a == nil || b == nil {
		return a == nil && b == nil
	}
	return a.IsEqual(b)
}
