//go:build verif

package mailbox

import (
	"bytes"
	"encoding/binary"

	"github.com/btcsuite/btcd/btcec/v2"
)

// VH_C07_HostileActTwo: the length fields of act two are authenticated, but
// they are chosen by whoever produced the message - a relay operator who
// learnt the pairing phrase, or a compromised peer behind the relay. The
// responder's act two is composed with the real token and encryption code and
// a *symbolic* length field (16 bit in version 0, 32 bit in versions 1 and 2,
// so every value incl. those that make `macSize + length` wrap), followed by
// a genuine ciphertext of `k` payload bytes. The initiator parses it with the
// real readMsgPattern: it accepts when the field is truthful, otherwise
// returns an error or a payload of the announced length - it never panics
// (slice bounds, negative make, ...). This file uses internal signatures
// (writeTokens, EncryptAndHash) and is kept separate so that a change of
// those only takes this harness down.
func VH_C07_HostileActTwo() {
	kk := vBool("kk")
	ver := byte(vIntRange("ver", 0, 2))
	if kk && ver != 2 {
		return
	}
	cfg := &vHSConfig{kk: kk, cMin: ver, cMax: ver, sMin: ver, sMax: ver}
	cfg.cliPW, cfg.srvPW = vSamePW()
	k := [5]int{0, 1, 15, 16, 40}[vIntRange("k_idx", 0, 4)]
	auth := vBytes("auth", k)
	cfg.auth = auth
	hs, ok := vSetup(cfg)
	vAssert(ok, "machine construction failed")
	cli, srv := hs.cli.m, hs.srv.m

	var act1 bytes.Buffer
	vAssert(cli.writeMsgPattern(&act1, cli.pattern.Pattern[0]) == nil, "client cannot write act 1")
	vAssert(srv.readMsgPattern(bytes.NewReader(act1.Bytes()), srv.pattern.Pattern[0]) == nil, "server rejects the honest act 1")

	mp := srv.pattern.Pattern[1]
	act2 := new(bytes.Buffer)
	act2.Write([]byte{ver})
	vAssert(srv.writeTokens(mp.Tokens, act2) == nil, "server cannot write the act 2 tokens")
	truthful := false
	if ver == 0 {
		payload := make([]byte, ActTwoPayloadSize)
		l := vU16("len16")
		binary.BigEndian.PutUint16(payload[:2], l)
		copy(payload[2:], auth)
		truthful = int(l) == k
		act2.Write(srv.EncryptAndHash(payload))
	} else {
		var lenBuf [4]byte
		l := vU32("len32")
		binary.BigEndian.PutUint32(lenBuf[:], l)
		truthful = int64(l) == int64(k)
		act2.Write(srv.EncryptAndHash(lenBuf[:]))
		act2.Write(srv.EncryptAndHash(auth))
	}
	err := cli.readMsgPattern(bytes.NewReader(act2.Bytes()), cli.pattern.Pattern[1])
	vReach("hostile-act2")
	if truthful {
		vReach("hostile-truthful")
		vAssert(err == nil, "an honest act two was rejected")
		vAssert(vBytesEq(cli.receivedPayload, auth), "honest act two: payload differs")
	}
}

// VH_C07_HostileActOne: act one of the passphrase handshake carries the
// initiator's ephemeral key masked with N*pw. Whoever knows the pairing
// phrase can send the one value that cancels the mask - N*pw itself, so that
// the unmasked "key" is the point at infinity. The byte string is composed
// with the same curve primitives ekeMask uses and read by the responder's
// real readMsgPattern (any version byte, any MAC): it is rejected with an
// error, nothing panics.
func VH_C07_HostileActOne() {
	ver := byte(vIntRange("ver", 0, 2))
	cfg := &vHSConfig{cMin: 0, cMax: 2, sMin: 0, sMax: 2}
	cfg.cliPW, cfg.srvPW = vSamePW()
	cfg.auth = vBytes("auth", 3)
	hs, ok := vSetup(cfg)
	vAssert(ok, "machine construction failed")
	srv := hs.srv.m
	s := new(btcec.ModNScalar)
	s.SetByteSlice(srv.passphraseEntropy)
	var nJ, pJ btcec.JacobianPoint
	N.AsJacobian(&nJ)
	btcec.ScalarMultNonConst(s, &nJ, &pJ)
	pJ.ToAffine()
	pt := btcec.NewPublicKey(&pJ.X, &pJ.Y)
	act1 := append([]byte{ver}, pt.SerializeCompressed()...)
	act1 = append(act1, vBytes("mac", 16)...)
	err := srv.readMsgPattern(bytes.NewReader(act1), srv.pattern.Pattern[0])
	vReach("hostile-act1")
	vAssert(err != nil, "an act one whose masked key cancels the mask was accepted")
}
