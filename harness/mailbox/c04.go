//go:build verif

package mailbox

func vVersions(cfg *vHSConfig) {
	if vParam("fixver", 0) == 1 {
		// both sides support the whole range 0..2 (the deployed configuration)
		cfg.cMin, cfg.cMax, cfg.sMin, cfg.sMax = 0, 2, 0, byte(vIntRange("smax", 0, 2))
		return
	}
	cfg.cMin, cfg.cMax = byte(vIntRange("cmin", 0, 2)), byte(vIntRange("cmax", 0, 2))
	cfg.sMin, cfg.sMax = byte(vIntRange("smin", 0, 2)), byte(vIntRange("smax", 0, 2))
	vAssume(cfg.cMin <= cfg.cMax && cfg.sMin <= cfg.sMax)
}

func vAuthLen() int {
	return [7]int{0, 1, 7, 498, 499, 600, 70000}[vIntRange("authlen_idx", 0, vParam("authlens", 5))]
}

func vSamePW() ([]byte, []byte) {
	pw := vBytes("pw", 14)
	pw2 := make([]byte, 14)
	copy(pw2, pw)
	return pw, pw2
}

// VH_C04_Honest: every (cMin,cMax,sMin,sMax) in {0,1,2}^4, XX pattern, auth
// payload lengths {0,1,7,498,499,600}, untouched wire: whenever both complete
// they agree on everything; with compatible version ranges both do complete.
func VH_C04_Honest() {
	cfg := &vHSConfig{}
	vVersions(cfg)
	cfg.cliPW, cfg.srvPW = vSamePW()
	auth := vBytes("auth", vAuthLen())
	cfg.auth = auth
	hs, ok := vSetup(cfg)
	vAssert(ok, "machine construction failed")
	vRunHandshake(hs)
	vReach("honest")
	compatible := cfg.sMin <= cfg.cMin && cfg.cMin <= cfg.sMax && cfg.cMin <= cfg.sMax && cfg.sMax <= cfg.cMax
	// a version 0 frame cannot carry more than 498 bytes: that is refused, not truncated
	fits := cfg.sMax != 0 || len(auth) <= 498
	if compatible && fits {
		vAssert(hs.cli.err == nil && hs.srv.err == nil, "handshake between compatible honest parties failed")
	}
	if hs.cli.err == nil && hs.srv.err == nil {
		vReach("both-complete")
		vAgree(hs, auth)
	}
}

// VH_C04_KK: the key-based pattern, honest wire.
func VH_C04_KK() {
	cfg := &vHSConfig{kk: true}
	vVersions(cfg)
	auth := vBytes("auth", vAuthLen())
	cfg.auth = auth
	hs, ok := vSetup(cfg)
	if !ok {
		vReach("kk-refused") // max version below 2
		vAssert(cfg.cMax < 2 || cfg.sMax < 2, "KK machine construction failed although version 2 is allowed")
		return
	}
	vRunHandshake(hs)
	vReach("kk")
	if hs.cli.err == nil && hs.srv.err == nil {
		vReach("both-complete")
		vAgree(hs, auth)
		vAssert(hs.cli.m.version == 2, "KK completed below version 2")
	}
	vAssert(hs.cli.err == nil && hs.srv.err == nil, "KK handshake between paired honest parties failed")
}

// vMITM installs a relay on both directions: the version byte of every act is
// replaced by an arbitrary value 0..3 and (optionally) one byte of every act
// is XORed with an arbitrary non-zero mask.
func vMITM(hs *vHS, flips bool) {
	relay := func(dir string) func(int, []byte) []byte {
		return func(i int, b []byte) []byte {
			if len(b) == 0 {
				return b
			}
			v := vU8("ver_" + dir)
			vAssume(v <= 3)
			out := make([]byte, len(b))
			copy(out, b)
			out[0] = v
			if flips && vBool("flip_"+dir) {
				pos := vInt("flippos_" + dir)
				vAssume(pos >= 1 && pos < len(b))
				mask := vU8("flipmask_" + dir)
				vAssume(mask != 0)
				out[pos] ^= mask
			}
			return out
		}
	}
	hs.c2s.relay = relay("c2s")
	hs.s2c.relay = relay("s2c")
}

// VH_C04_MITM: an active man-in-the-middle rewrites the cleartext version
// byte of every act (every value 0..3, all combinations across acts) and may
// flip bits in one byte of every act. Tampering may abort the handshake but
// must never leave two parties that both proceed with different views.
func VH_C04_MITM() {
	cfg := &vHSConfig{}
	vVersions(cfg)
	cfg.cliPW, cfg.srvPW = vSamePW()
	auth := vBytes("auth", [2]int{0, 7}[vIntRange("authlen_idx", 0, 1)])
	cfg.auth = auth
	hs, ok := vSetup(cfg)
	vAssert(ok, "machine construction failed")
	vMITM(hs, vParam("flips", 1) == 1)
	vRunHandshake(hs)
	vReach("mitm")
	if hs.cli.err == nil && hs.srv.err == nil {
		vReach("both-complete")
		vAgree(hs, auth)
	}
}

// VH_C04_MITM_KK: the same for the key-based pattern.
func VH_C04_MITM_KK() {
	// all version ranges: the deployed default is [0,2] on both sides; the key
	// based pattern needs version 2, whatever the configured minimum says
	cfg := &vHSConfig{kk: true}
	vVersions(cfg)
	auth := vBytes("auth", 7)
	cfg.auth = auth
	hs, ok := vSetup(cfg)
	if !ok {
		vAssert(cfg.cMax < 2 || cfg.sMax < 2, "KK machine construction failed although version 2 is allowed")
		return
	}
	vMITM(hs, true)
	vRunHandshake(hs)
	vReach("mitm-kk")
	if hs.cli.err == nil && hs.srv.err == nil {
		vReach("both-complete")
		vAgree(hs, auth)
	}
}

// vAuth returns the auth payload the responder is configured with and an
// independent copy for the oracle. The configured slice either is exactly
// sized or has spare capacity (as a slice built by append, or cut out of a
// larger buffer, has): code that writes through it must not change what later
// handshakes hand out.
func vAuth(n int) (given, want []byte) {
	spare := 64 * vIntRange("auth_spare_cap", 0, 1)
	given = vBytes("auth", n+spare)[:n]
	want = make([]byte, n)
	copy(want, given)
	return
}

// VH_C04_Reconnect: the first pairing handshake (XX) followed by the repeat
// handshake (KK) of the same two parties on the same ConnData objects, as
// every reconnect does. Both must complete, and the second one must agree on
// everything again - in particular the initiator must again hold exactly the
// auth payload the responder was configured with.
func VH_C04_Reconnect() {
	cfg := &vHSConfig{cMin: 0, cMax: 2, sMin: 0, sMax: 2}
	cfg.cliPW, cfg.srvPW = vSamePW()
	given, want := vAuth([4]int{1, 7, 40, 600}[vIntRange("authlen_idx", 0, 3)])
	cfg.auth = given
	hs, ok := vSetup(cfg)
	vAssert(ok, "machine construction failed")
	vRunHandshake(hs)
	vAssert(hs.cli.err == nil && hs.srv.err == nil, "first handshake between honest parties failed")
	if hs.cli.err != nil || hs.srv.err != nil {
		return
	}
	vAgree(hs, want)
	vReach("first-done")
	// the repeat handshake: fresh Machines on the same ConnData
	hs2 := &vHS{cli: hs.cli, srv: hs.srv, c2s: newHalf(), s2c: newHalf()}
	for i, p := range []*vParty{hs.cli, hs.srv} {
		p.err, p.done, p.gotAuth, p.authCalls, p.remoteCalls = nil, false, nil, 0, 0
		m, err := NewBrontideMachine(&BrontideMachineConfig{
			Initiator: i == 0, HandshakePattern: p.cd.HandshakePattern(), ConnData: p.cd,
			MinHandshakeVersion: 0, MaxHandshakeVersion: 2,
		})
		vAssert(err == nil, "machine construction for the repeat handshake failed")
		if err != nil {
			return
		}
		p.m = m
	}
	vRunHandshake(hs2)
	vReach("reconnect")
	vAssert(hs2.cli.err == nil && hs2.srv.err == nil, "repeat handshake between paired honest parties failed")
	if hs2.cli.err == nil && hs2.srv.err == nil {
		vReach("both-complete")
		vAgree(hs2, want)
	}
}

// VH_C04_LargeTwice: two pairings in one process, each with an auth payload
// of several transport records (70000 bytes, different contents). After the
// second handshake has completed, the first initiator still holds exactly the
// payload its responder sent - whatever buffers the implementation recycles
// between handshakes, a payload that was handed out is not touched again.
// (All four Machines are built before the first handshake runs: building one
// stretches the passphrase and ends in debug.FreeOSMemory(), i.e. a forced
// collection, which would empty any sync.Pool between the two handshakes of
// a native replay.)
func VH_C04_LargeTwice() {
	vSingleP()
	var hss [2]*vHS
	var auths [2][]byte
	for i := range hss {
		cfg := &vHSConfig{cMin: 0, cMax: 2, sMin: 0, sMax: 2}
		cfg.cliPW, cfg.srvPW = vSamePW()
		auths[i] = vStream("auth", vParam("authlen", 70000))
		cfg.auth = auths[i]
		hs, ok := vSetup(cfg)
		vAssert(ok, "machine construction failed")
		hss[i] = hs
	}
	for i, hs := range hss {
		vRunHandshake(hs)
		vAssert(hs.cli.err == nil && hs.srv.err == nil, "a valid handshake with a large auth payload failed")
		if hs.cli.err != nil || hs.srv.err != nil {
			return
		}
		vAgree(hs, auths[i])
	}
	vReach("large-twice")
	got := hss[0].cli.m.receivedPayload
	vAssert(len(got) == len(auths[0]), "the first initiator's auth payload changed its length after a later handshake")
	j := vInt("j")
	if j >= 0 && j < len(got) && j < len(auths[0]) {
		vAssert(got[j] == auths[0][j], "the first initiator's auth payload was overwritten by a later handshake (recycled buffer)")
	}
}
