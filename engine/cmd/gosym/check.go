package main

import (
	"bufio"
	"crypto/sha256"
	"encoding/json"
	"flag"
	"fmt"
	"os"
	"os/exec"
	"path/filepath"
	"sort"
	"strconv"
	"strings"
	"time"

	"verif/engine/sym"
)

const verifDir = "/verif"

// repoDir is /repo; VERIF_REPO points the checks at a scratch worktree (used
// only to try seeded changes without touching /repo).
var repoDir = func() string {
	if d := os.Getenv("VERIF_REPO"); d != "" {
		return d
	}
	return "/repo"
}()

// TierOpt: options of one harness run in one tier.
type TierOpt struct {
	Params   map[string]int // harness parameters (vParam)
	Sched    int
	Race     bool
	MaxPaths int
	MaxSteps int
	Horizon  int64
	Timeout  int // solver timeout ms
	Solver   string
	Cross    bool // thorough tier: re-run the harness on the other solvers and diff the verdicts
}

// Run describes one harness of a property.
type Run struct {
	Pkg      string
	Harness  string
	Inits    []string
	Quick    *TierOpt
	Thorough *TierOpt
	// MustReach: vReach labels that must be reached (vacuity guard)
	MustReach []string
	What      string // one-line description for the evidence
	Synctest  bool   // native replay needs testing/synctest
	NoReplay  bool   // harness uses model-only stubs: replay through scenario twin
	Twin      string // native twin test for scenario replay
}

type Prop struct {
	ID          string
	Runs        []Run
	Functions   []string
	Assumptions []string
	Bounds      []string
	Outside     []string
}

func loadKnown() ([]sym.KnownFinding, []string) {
	var ks []sym.KnownFinding
	var fixed []string
	f, err := os.Open(filepath.Join(verifDir, "known_findings.txt"))
	if err != nil {
		return nil, nil
	}
	defer f.Close()
	sc := bufio.NewScanner(f)
	for sc.Scan() {
		line := strings.TrimSpace(sc.Text())
		if strings.HasPrefix(line, "fixed:") {
			fixed = append(fixed, line)
			continue
		}
		if !strings.HasPrefix(line, "known:") {
			continue
		}
		// known: property=C04 harness=VH_x msg="..." when=a=1,b=2 :: free text
		k := sym.KnownFinding{Pred: map[string]uint64{}}
		rest := strings.TrimSpace(strings.TrimPrefix(line, "known:"))
		text := rest
		if i := strings.Index(rest, "::"); i >= 0 {
			text = strings.TrimSpace(rest[i+2:])
			rest = rest[:i]
		}
		for _, f := range splitFields(rest) {
			kv := strings.SplitN(f, "=", 2)
			if len(kv) != 2 {
				continue
			}
			switch kv[0] {
			case "property":
				k.Property = kv[1]
			case "harness":
				k.Harness = kv[1]
			case "msg":
				k.Msg = strings.Trim(kv[1], "\"")
			case "when":
				for _, c := range strings.Split(kv[1], ",") {
					nv := strings.SplitN(c, ":", 2)
					if len(nv) == 2 {
						v, _ := strconv.ParseUint(nv[1], 10, 64)
						k.Pred[nv[0]] = v
					}
				}
			}
		}
		k.Text = text
		ks = append(ks, k)
	}
	return ks, fixed
}

// splitFields splits on spaces outside double quotes.
func splitFields(s string) []string {
	var out []string
	var cur strings.Builder
	inq := false
	for _, r := range s {
		switch {
		case r == '"':
			inq = !inq
			cur.WriteRune(r)
		case r == ' ' && !inq:
			if cur.Len() > 0 {
				out = append(out, cur.String())
				cur.Reset()
			}
		default:
			cur.WriteRune(r)
		}
	}
	if cur.Len() > 0 {
		out = append(out, cur.String())
	}
	return out
}

type runOutcome struct {
	Run    Run
	Opt    *TierOpt
	Res    *sym.HarnessResult
	Cross  map[string]string // solver -> summary (thorough)
	Replay []replayOutcome
}

type replayOutcome struct {
	V          *sym.Violation
	Reproduced bool
	Output     string
	Path       string
}

func checkMain(args []string) int {
	fs := flag.NewFlagSet("check", flag.ExitOnError)
	tier := fs.String("tier", "", "quick|thorough")
	workers := fs.Int("workers", 16, "parallel workers")
	only := fs.String("only", "", "run only this harness")
	noReplay := fs.Bool("noreplay", false, "skip native replay (development)")
	fs.Parse(reorder(args))
	if fs.NArg() < 1 {
		fmt.Fprintln(os.Stderr, "usage: gosym check <property> --tier quick|thorough")
		return 2
	}
	id := fs.Arg(0)
	if *tier == "" {
		*tier = os.Getenv("VERIF_TIER")
	}
	if *tier == "" {
		*tier = "quick"
	}
	seed := 0
	if s := os.Getenv("VERIF_SEED"); s != "" {
		seed, _ = strconv.Atoi(s)
	}
	prop, ok := props[id]
	if !ok {
		fmt.Fprintln(os.Stderr, "unknown property", id)
		return 2
	}
	start := time.Now()
	known, fixed := loadKnown()
	_ = fixed
	progs := map[string]*sym.Program{}
	var outcomes []*runOutcome
	engineErrors := []string{}
	for _, r := range prop.Runs {
		if *only != "" && r.Harness != *only {
			continue
		}
		opt := r.Quick
		if *tier == "thorough" {
			opt = r.Thorough
			if opt == nil {
				opt = r.Quick
			}
		}
		if opt == nil {
			continue
		}
		key := r.Pkg + "|" + strings.Join(r.Inits, ",")
		p, ok := progs[key]
		if !ok {
			var err error
			p, err = sym.Load(sym.LoadConfig{RepoDir: filepath.Join(repoDir, r.Pkg), HarnessDir: filepath.Join(verifDir, "harness", r.Pkg),
				Tags: []string{"verif", "math_big_pure_go"}, InitPkgs: append(defaultInits(r.Pkg), r.Inits...)})
			if err != nil {
				fmt.Fprintf(os.Stderr, "ENGINE-ERROR load %s: %v\n", r.Pkg, err)
				return 2
			}
			progs[key] = p
		}
		fn := p.Harness(r.Harness)
		if fn == nil {
			msg := "harness not found: " + r.Harness
			if len(p.Dropped) > 0 {
				var ds []string
				for f, e := range p.Dropped {
					ds = append(ds, f+": "+e)
				}
				sort.Strings(ds)
				msg = "harness " + r.Harness + " cannot run: its file does not compile against the current tree (an internal API it uses changed): " + strings.Join(ds, "; ")
			}
			engineErrors = append(engineErrors, msg)
			continue
		}
		o := sym.DefaultOptions()
		o.Workers = *workers
		o.SchedBudget = opt.Sched
		o.RaceMode = opt.Race
		o.Known = known
		o.Params = opt.Params
		if opt.Solver != "" {
			o.SolverName = opt.Solver
		}
		if opt.MaxPaths > 0 {
			o.MaxPaths = opt.MaxPaths
		}
		if opt.MaxSteps > 0 {
			o.MaxSteps = opt.MaxSteps
		}
		if opt.Horizon > 0 {
			o.Horizon = opt.Horizon
		}
		if opt.Timeout > 0 {
			o.TimeoutMs = opt.Timeout
		} else if *tier == "thorough" {
			o.TimeoutMs = 60000
		}
		hr := sym.Explore(p, fn, o)
		oc := &runOutcome{Run: r, Opt: opt, Res: hr, Cross: map[string]string{}}
		outcomes = append(outcomes, oc)
		fmt.Printf("[%s] %s: paths=%d queries=%d solver=%v wall=%v violations=%d inconclusive=%d unsupported=%d\n", id, r.Harness, hr.Paths, hr.Queries,
			hr.SolverTime.Round(time.Millisecond), hr.Wall.Round(time.Millisecond), len(hr.Violations), len(hr.Inconcl), len(hr.Unsupported))
		// vacuity guards
		for _, l := range r.MustReach {
			if !hr.Reached[l] {
				engineErrors = append(engineErrors, fmt.Sprintf("%s: vacuity: label %q not reached", r.Harness, l))
			}
		}
		if hr.Ends["returned"] == 0 && len(hr.Violations) == 0 {
			engineErrors = append(engineErrors, fmt.Sprintf("%s: vacuity: no path ran to completion (%v)", r.Harness, hr.Ends))
		}
		for _, u := range hr.Unsupported {
			engineErrors = append(engineErrors, r.Harness+": unsupported: "+firstLine(u))
		}
		for _, u := range hr.Inconcl {
			engineErrors = append(engineErrors, r.Harness+": inconclusive: "+u)
		}
		if hr.Truncated {
			engineErrors = append(engineErrors, r.Harness+": path budget exhausted (bound not covered)")
		}
		// thorough: diff the verdicts of a second and third solver
		if *tier == "thorough" && !opt.Race && opt.Sched == 0 && opt.Cross {
			for _, sv := range []string{"z3", "z3-new", "cvc5"} {
				if sv == o.SolverName || (o.SolverName == "portfolio" && sv != "cvc5") {
					continue
				}
				o2 := o
				o2.SolverName = sv
				h2 := sym.Explore(p, fn, o2)
				sum := fmt.Sprintf("paths=%d violations=%s inconclusive=%d", h2.Paths, violKey(h2.Violations), len(h2.Inconcl))
				oc.Cross[sv] = sum
				if violKey(h2.Violations) != violKey(hr.Violations) && len(h2.Inconcl) == 0 && len(h2.Unsupported) == 0 {
					engineErrors = append(engineErrors, fmt.Sprintf("%s: solver disagreement %s vs %s: %s vs %s", r.Harness, o.SolverName, sv, violKey(hr.Violations), violKey(h2.Violations)))
				}
			}
		}
	}
	// classify violations
	exit := 0
	var lines []string
	violCount := 0
	knownSeen := map[string]bool{}
	for _, oc := range outcomes {
		// One class per (kind, head of the message, site). A class is confirmed
		// by the first of its counterexamples that replays natively; up to
		// maxTries members with different inputs are tried, because a member
		// may hinge on the order of events at one virtual instant, which the
		// native scheduler decides differently.
		const maxTries = 6
		classDone := map[string]bool{}
		classTries := map[string]int{}
		classFirst := map[string]replayOutcome{}
		var classOrder []string
		for _, v := range oc.Res.Violations {
			if v.Known != "" {
				k := fmt.Sprintf("KNOWN-FINDING: property=%s %s", id, v.Known)
				if !knownSeen[k] {
					knownSeen[k] = true
					lines = append(lines, k)
				}
				continue
			}
			head := v.Msg
			if len(head) > 90 {
				head = head[:90]
			}
			key := v.Kind + "|" + head + "|" + v.Where
			if classDone[key] || classTries[key] >= maxTries {
				continue
			}
			if _, seen := classTries[key]; !seen {
				classOrder = append(classOrder, key)
			}
			classTries[key]++
			path := writeReplay(id, oc.Run, v)
			ro := replayOutcome{V: v, Path: path}
			if *noReplay {
				ro.Reproduced = true
			} else {
				ro.Reproduced, ro.Output = nativeReplay(oc.Run, path, progs[oc.Run.Pkg+"|"+strings.Join(oc.Run.Inits, ",")])
			}
			oc.Replay = append(oc.Replay, ro)
			if ro.Reproduced {
				classDone[key] = true
				violCount++
				lines = append(lines, fmt.Sprintf("VIOLATION property=%s replay=%s", id, path))
				fmt.Printf("  violation: %s: %s @ %s (harness %s)\n", v.Kind, v.Msg, v.Where, v.Harness)
				exit = 1
			} else if _, have := classFirst[key]; !have {
				classFirst[key] = ro
			}
		}
		for _, key := range classOrder {
			if classDone[key] {
				continue
			}
			ro := classFirst[key]
			engineErrors = append(engineErrors, fmt.Sprintf("ENGINE-MISMATCH %s: %d counterexample(s) for '%s' did not reproduce natively (first replay %s): %s", oc.Run.Harness, classTries[key], ro.V.Msg, ro.Path, lastLines(ro.Output, 6)))
		}
	}
	wall := time.Since(start).Seconds()
	writeEvidence(id, *tier, seed, prop, outcomes, violCount, wall, engineErrors, lines)
	for _, l := range lines {
		fmt.Println(l)
	}
	if len(engineErrors) > 0 {
		for _, e := range engineErrors {
			fmt.Println("INCONCLUSIVE:", e)
		}
		if exit == 0 {
			return 2
		}
	}
	if exit == 0 {
		fmt.Printf("OK property=%s tier=%s harnesses=%d wall=%.1fs\n", id, *tier, len(outcomes), wall)
	}
	return exit
}

// reorder moves flags before positional arguments so that
// "check C07 --tier quick" parses.
func reorder(args []string) []string {
	var flags, pos []string
	for i := 0; i < len(args); i++ {
		a := args[i]
		if strings.HasPrefix(a, "-") {
			flags = append(flags, a)
			if !strings.Contains(a, "=") && i+1 < len(args) && !strings.HasPrefix(args[i+1], "-") && a != "--noreplay" && a != "-noreplay" {
				flags = append(flags, args[i+1])
				i++
			}
		} else {
			pos = append(pos, a)
		}
	}
	return append(flags, pos...)
}

func firstLine(s string) string {
	if i := strings.Index(s, "\n"); i >= 0 {
		return s[:i]
	}
	return s
}

func lastLines(s string, n int) string {
	ls := strings.Split(strings.TrimSpace(s), "\n")
	if len(ls) > n {
		ls = ls[len(ls)-n:]
	}
	return strings.Join(ls, " | ")
}

func violKey(vs []*sym.Violation) string {
	set := map[string]bool{}
	for _, v := range vs {
		set[v.Kind+":"+v.Msg] = true
	}
	var ks []string
	for k := range set {
		ks = append(ks, k)
	}
	sort.Strings(ks)
	return "[" + strings.Join(ks, "; ") + "]"
}

func writeReplay(id string, r Run, v *sym.Violation) string {
	os.MkdirAll(filepath.Join(verifDir, "replays"), 0o755)
	doc := map[string]interface{}{
		"property": id, "pkg": r.Pkg, "harness": r.Harness, "kind": v.Kind, "msg": v.Msg, "where": v.Where,
		"model": v.Model, "trail": v.Trail, "synctest": r.Synctest, "twin": r.Twin,
	}
	b, _ := json.MarshalIndent(doc, "", " ")
	h := sha256.Sum256(b)
	path := filepath.Join(verifDir, "replays", fmt.Sprintf("%s-%x.json", id, h[:6]))
	os.WriteFile(path, b, 0o644)
	return path
}

// nativeReplay compiles the harness into the real package (go test -overlay)
// and runs it on the model. Reproduced = the native run panics or records a
// failed vAssert.
func nativeReplay(r Run, replayPath string, p *sym.Program) (bool, string) {
	tmp, err := os.MkdirTemp(filepath.Join(verifDir, "replays"), "tmp-")
	if err != nil {
		return false, err.Error()
	}
	defer os.RemoveAll(tmp)
	ov := map[string]string{}
	files, _ := filepath.Glob(filepath.Join(verifDir, "harness", r.Pkg, "*.go"))
	for _, f := range files {
		base := filepath.Base(f)
		if _, out := p.Dropped["zz_verif_"+base]; out {
			continue
		}
		ov[filepath.Join(repoDir, r.Pkg, "zz_verif_"+base)] = f
	}
	// generated test driver
	var sb strings.Builder
	pkgName := filepath.Base(r.Pkg)
	sb.WriteString("//go:build verif\n\npackage " + pkgName + "\n\nimport (\n\t\"fmt\"\n\t\"os\"\n\t\"runtime\"\n\t\"testing\"\n\t\"time\"\n")
	if r.Synctest {
		sb.WriteString("\t\"testing/synctest\"\n")
	}
	sb.WriteString(")\n\nvar (\n\t_ = runtime.Stack\n\t_ = time.Now\n)\n\nvar vHarnessTable = map[string]func(){\n")
	names := p.Harnesses("VH_")
	sort.Strings(names)
	for _, n := range names {
		fmt.Fprintf(&sb, "\t%q: %s,\n", n, n)
	}
	sb.WriteString("}\n\nfunc TestVerifReplay(t *testing.T) {\n\th := vHarnessTable[os.Getenv(\"VERIF_HARNESS\")]\n\tif h == nil {\n\t\tt.Fatal(\"no harness\")\n\t}\n")
	body := `	run := func() {
		defer func() {
			if r := recover(); r != nil {
				if _, ok := r.(vAssumeFailed); ok {
					fmt.Println("REPLAY-ASSUME-FAILED")
					return
				}
				fmt.Printf("REPLAY-PANIC: %v\n", r)
				t.Fail()
			}
		}()
		defer func() {
			for _, f := range vFailures {
				fmt.Printf("REPLAY-FAIL: %s\n", f)
				t.Fail()
			}
			vFailures = nil
		}()
		h()
	}
`
	sb.WriteString(body)
	var kindDoc struct{ Kind string }
	if b, err := os.ReadFile(replayPath); err == nil {
		json.Unmarshal(b, &kindDoc)
	}
	stress := !r.Synctest && (kindDoc.Kind == "deadlock" || kindDoc.Kind == "race")
	switch {
	case r.Synctest:
		// Inside the bubble time is virtual, but which ready case a select
		// takes and which runnable goroutine goes first is still the native
		// scheduler's choice: the run is repeated on the same inputs until a
		// failure shows (a crash or a bubble deadlock ends the process).
		reps := 5
		if kindDoc.Kind != "assert" {
			reps = 40
		}
		fmt.Fprintf(&sb, "\tvSynctest = true\n\tfor it := 0; it < %d && !t.Failed(); it++ {\n\t\tvResetReplay()\n\t\tsynctest.Run(run)\n\t}\n", reps)
	case stress:
		// A schedule-dependent counterexample (lock-order deadlock, data race) of a
		// wall-clock harness: the native scheduler cannot be told which
		// interleaving to take, so the harness is repeated on the same inputs
		// for a fixed time budget, with a watchdog per iteration.
		sb.WriteString(`	end := time.Now().Add(40 * time.Second)
	for it := 0; time.Now().Before(end); it++ {
		vResetReplay()
		done := make(chan struct{})
		go func() { defer close(done); run() }()
		select {
		case <-done:
		case <-time.After(10 * time.Second):
			buf := make([]byte, 1<<16)
			buf = buf[:runtime.Stack(buf, true)]
			fmt.Printf("REPLAY-DEADLOCK: iteration %d did not finish within 10 s\n%s\n", it, buf)
			t.FailNow()
		}
		if t.Failed() {
			return
		}
	}
`)
	default:
		sb.WriteString("\trun()\n")
	}
	sb.WriteString("\tfor _, f := range vFailures {\n\t\tfmt.Printf(\"REPLAY-FAIL: %s\\n\", f)\n\t\tt.Fail()\n\t}\n}\n")
	drv := filepath.Join(tmp, "replay_test.go")
	os.WriteFile(drv, []byte(sb.String()), 0o644)
	ov[filepath.Join(repoDir, r.Pkg, "zz_verif_replay_test.go")] = drv
	ovb, _ := json.Marshal(map[string]interface{}{"Replace": ov})
	ovPath := filepath.Join(tmp, "overlay.json")
	os.WriteFile(ovPath, ovb, 0o644)
	tmo := "300s"
	if r.Synctest {
		tmo = "90s" // virtual time: a replay that needs longer is hung (which is what a hang counterexample looks like)
	}
	goArgs := []string{"test", "-tags", "verif", "-vet=off", "-count=1", "-timeout", tmo, "-run", "^TestVerifReplay$", "-overlay", ovPath, "-v"}
	if kindDoc.Kind == "race" {
		// data races are confirmed by the native race detector (a few repetitions:
		// it only sees the interleavings that actually happen)
		goArgs = append(goArgs, "-race")
		if r.Synctest {
			goArgs = append(goArgs, "-count=5")
		}
	}
	goArgs = append(goArgs, ".")
	cmd := exec.Command("go", goArgs...)
	cmd.Dir = filepath.Join(repoDir, r.Pkg)
	cmd.Env = append(os.Environ(), "GOFLAGS=-mod=mod", "GOPROXY=off", "VERIF_MODEL="+replayPath, "VERIF_HARNESS="+r.Harness)
	if r.Synctest {
		cmd.Env = append(cmd.Env, "GOEXPERIMENT=synctest")
	}
	out, _ := cmd.CombinedOutput()
	s := string(out)
	var doc struct{ Kind, Msg string }
	if b, err := os.ReadFile(replayPath); err == nil {
		json.Unmarshal(b, &doc)
	}
	rep := false
	switch doc.Kind {
	case "assert":
		// the failed assertion itself, or a genuine native crash on the same input
		crash := (strings.Contains(s, "\npanic: ") || strings.Contains(s, "fatal error:") || strings.Contains(s, "REPLAY-PANIC")) &&
			!strings.Contains(s, "all goroutines in bubble are blocked")
		// the same assertion, or - for harnesses whose native schedule/timing can
		// differ from the engine's - any assertion of the harness on this input
		rep = strings.Contains(s, "REPLAY-FAIL: "+doc.Msg) || crash || (r.Synctest && strings.Contains(s, "REPLAY-FAIL: "))
	case "deadlock":
		rep = strings.Contains(s, "deadlock") || strings.Contains(s, "REPLAY-DEADLOCK") || strings.Contains(s, "REPLAY-FAIL") || strings.Contains(s, "test timed out") || strings.Contains(s, "panic: test timed out")
	default:
		rep = strings.Contains(s, "REPLAY-PANIC") || strings.Contains(s, "panic:") || strings.Contains(s, "fatal error:") || strings.Contains(s, "DATA RACE")
	}
	if strings.Contains(s, "REPLAY-PANIC: open ") || strings.Contains(s, "[build failed]") || strings.Contains(s, "[setup failed]") {
		// the replay itself could not run: never a confirmation
		rep = false
	}
	return rep, s
}

func replayMain(args []string) int {
	if len(args) < 1 {
		fmt.Fprintln(os.Stderr, "usage: gosym replay <path>")
		return 2
	}
	if abs, err := filepath.Abs(args[0]); err == nil {
		args[0] = abs
	}
	b, err := os.ReadFile(args[0])
	if err != nil {
		fmt.Fprintln(os.Stderr, err)
		return 2
	}
	var doc struct {
		Property, Pkg, Harness string
		Synctest               bool
	}
	json.Unmarshal(b, &doc)
	p, err := sym.Load(sym.LoadConfig{RepoDir: filepath.Join(repoDir, doc.Pkg), HarnessDir: filepath.Join(verifDir, "harness", doc.Pkg), Tags: []string{"verif", "math_big_pure_go"}})
	if err != nil {
		fmt.Fprintln(os.Stderr, err)
		return 2
	}
	ok, out := nativeReplay(Run{Pkg: doc.Pkg, Harness: doc.Harness, Synctest: doc.Synctest}, args[0], p)
	fmt.Println(out)
	if ok {
		fmt.Printf("VIOLATION property=%s replay=%s\n", doc.Property, args[0])
		return 1
	}
	fmt.Println("replay did not reproduce a violation")
	return 0
}

// ---------------------------------------------------------------------------
// evidence

func writeEvidence(id, tier string, seed int, prop *Prop, outcomes []*runOutcome, violations int, wall float64, engineErrors, lines []string) {
	paths, queries, steps := 0, 0, 0
	var solver time.Duration
	replays := 0
	var samples []interface{}
	fnSet := map[string]bool{}
	var obligations, discharged int
	var perHarness []interface{}
	lemmas := map[string]int{}
	for _, oc := range outcomes {
		hr := oc.Res
		paths += hr.Paths
		queries += hr.Queries
		steps += hr.Steps
		solver += hr.SolverTime
		obligations++
		if len(hr.Violations) == 0 && len(hr.Inconcl) == 0 && len(hr.Unsupported) == 0 && !hr.Truncated {
			discharged++
		}
		for f := range hr.FnSeen {
			if strings.Contains(f, "lightning-node-connect") && !strings.Contains(f, ".VH_") && !strings.Contains(f, ".v") {
				fnSet[f] = true
			}
		}
		for k, v := range hr.Lemmas {
			lemmas[k] += v
		}
		for _, ro := range oc.Replay {
			if ro.Reproduced {
				replays++
			}
		}
		var reached []string
		for l := range hr.Reached {
			if !strings.HasPrefix(l, "assert:") {
				reached = append(reached, l)
			}
		}
		sort.Strings(reached)
		var asserts []string
		for l := range hr.Reached {
			if strings.HasPrefix(l, "assert:") {
				asserts = append(asserts, strings.TrimPrefix(l, "assert:"))
			}
		}
		sort.Strings(asserts)
		h := map[string]interface{}{
			"harness": oc.Run.Harness, "pkg": oc.Run.Pkg, "what": oc.Run.What, "paths": hr.Paths, "solver_queries": hr.Queries,
			"interpreted_instructions": hr.Steps, "solver_time_s": hr.SolverTime.Seconds(), "wall_s": hr.Wall.Seconds(),
			"path_ends": hr.Ends, "labels_reached": reached, "assertions_checked": asserts, "params": oc.Opt.Params,
			"sched_deviation_budget": oc.Opt.Sched, "race_mode": oc.Opt.Race, "violations": len(hr.Violations),
			"max_goroutines": hr.MaxGoroutines, "timer_fires": hr.TimerFires,
		}
		if len(oc.Cross) > 0 {
			h["cross_solver"] = oc.Cross
		}
		perHarness = append(perHarness, h)
		if len(samples) < 6 {
			s := map[string]interface{}{"harness": oc.Run.Harness, "bound": oc.Opt.Params, "sample_decision_vectors": hr.SamplePaths}
			if len(hr.Violations) > 0 {
				s["counterexample"] = hr.Violations[0].Model
				s["counterexample_msg"] = hr.Violations[0].Msg
			}
			samples = append(samples, s)
		}
	}
	var fns []string
	for f := range fnSet {
		fns = append(fns, f)
	}
	sort.Strings(fns)
	if paths == 0 {
		paths = 1
	}
	if queries == 0 {
		queries = 1
	}
	if len(samples) == 0 {
		samples = append(samples, "no harness ran")
	}
	ev := map[string]interface{}{
		"property_id": id,
		"tier":        tier,
		"seed":        seed,
		"level":       "model_checking",
		"wall_s":      wall,
		"violations":  violations,
		"assumptions": append(append([]string{}, prop.Assumptions...), "bounds: "+strings.Join(prop.Bounds, "; "), "outside the claim: "+strings.Join(prop.Outside, "; ")),
		"coverage": map[string]interface{}{
			"states":                        paths,
			"transitions":                   queries,
			"traces_validated_against_impl": replays,
			"samples":                       samples,
			"obligations":                   obligations,
			"discharged":                    discharged,
			"functions_encoded":             fns,
			"interpreted_instructions":      steps,
			"solver_time_s":                 solver.Seconds(),
			"solver":                        "z3 4.8.12 via one 'z3 -in' process per worker (push/pop); thorough tier re-runs every harness on z3-new 5.1.0 and cvc5 1.0 and diffs verdicts",
			"harnesses":                     perHarness,
			"lemmas_checked_concretely":     lemmas,
			"engine_notes":                  engineErrors,
			"result_lines":                  lines,
			"explanation":                   "states = symbolic paths explored (each a class of concrete executions), transitions = SMT queries discharged; encoding regenerated from /repo's current source (go/packages+go/ssa) on this run",
			"exhaustive":                    false,
		},
	}
	b, _ := json.MarshalIndent(ev, "", " ")
	evDir := filepath.Join(verifDir, "evidence")
	if os.Getenv("VERIF_REPO") != "" {
		// trying a scratch tree (seeded change): keep /verif/evidence for /repo
		evDir = filepath.Join(verifDir, "replays", "evidence-scratch")
	}
	if d := os.Getenv("VERIF_EVIDENCE_DIR"); d != "" {
		// development runs that must not replace the registered evidence
		evDir = d
	}
	os.MkdirAll(evDir, 0o755)
	os.WriteFile(filepath.Join(evDir, id+".json"), b, 0o644)
}
