package main

var gbnFns = []string{}

func q(params map[string]int) *TierOpt { return &TierOpt{Params: params} }

var props = map[string]*Prop{
	"C07": {
		ID: "C07",
		Runs: []Run{
			{Pkg: "gbn", Harness: "VH_C07_Deserialize", MustReach: []string{"deserialize"},
				What:     "gbn.Deserialize on every byte string of length 0..maxlen (contents symbolic): no run-time panic, never (nil,nil)",
				Quick:    q(map[string]int{"maxlen": 8}),
				Thorough: q(map[string]int{"maxlen": 64})},
		},
		Assumptions: []string{},
		Bounds:      []string{"packet length 0..8 (quick) / 0..64 (thorough), all byte values"},
		Outside:     []string{"regexp/protojson JSON envelope (not encodable)"},
	},
	"C09": {
		ID: "C09",
		Runs: []Run{
			{Pkg: "gbn", Harness: "VH_C09_ACK", MustReach: []string{"ack"}, What: "processACK from any in-range window, every ACK value, every n in 1..254", Quick: q(nil)},
			{Pkg: "gbn", Harness: "VH_C09_NACK", MustReach: []string{"nack"}, What: "processNACK likewise", Quick: q(nil)},
			{Pkg: "gbn", Harness: "VH_C09_Add", MustReach: []string{"add"}, What: "addPacket from any non-full window", Quick: q(nil)},
			{Pkg: "gbn", Harness: "VH_C09_Contains", MustReach: []string{"contains"}, What: "containsSequence vs modular-interval reference", Quick: q(nil)},
			{Pkg: "gbn", Harness: "VH_C09_Config", MustReach: []string{"config"}, What: "newConfig/setN: s=n+1, content has s slots", Quick: q(nil)},
		},
		Bounds: []string{"window size n symbolic in 1..254; base, top, seq full 8-bit domains"},
	},
	"C19": {
		ID: "C19",
		Runs: []Run{
			{Pkg: "gbn", Harness: "VH_C19_GBN_RT", MustReach: []string{"roundtrip"}, What: "Deserialize(Serialize(m)) == m, six packet types, all field values, payload 0..maxlen symbolic bytes",
				Quick: q(map[string]int{"maxlen": 8}), Thorough: q(map[string]int{"maxlen": 64})},
			{Pkg: "gbn", Harness: "VH_C19_GBN_Canon", MustReach: []string{"canon"}, What: "any bytes of length 0..maxlen that deserialise re-serialise to an equal value",
				Quick: q(map[string]int{"maxlen": 8}), Thorough: q(map[string]int{"maxlen": 64})},
		},
		Bounds: []string{"payload / packet length 0..8 quick, 0..64 thorough; every byte and flag value symbolic"},
	},
	"C14": {
		ID: "C14",
		Runs: []Run{
			{Pkg: "gbn", Harness: "VH_C14_Small", MustReach: []string{"sent"}, What: "two consecutive messages, every (length, maxChunkSize) pair, symbolic contents: one Recv per Send, equal bytes",
				Quick: q(map[string]int{"maxlen": 4, "maxchunk": 5}), Thorough: q(map[string]int{"maxlen": 9, "maxchunk": 10})},
			{Pkg: "gbn", Harness: "VH_C14_Chunks", MustReach: []string{"chunks"}, What: "chunk sizes, FinalChunk placement and chunk contents",
				Quick: q(map[string]int{"maxlen": 6, "maxchunk": 4}), Thorough: q(map[string]int{"maxlen": 16, "maxchunk": 9})},
			{Pkg: "gbn", Harness: "VH_C14_RecvDeadline", MustReach: []string{"deadline"}, Synctest: true, What: "receive deadline expiring inside a message, Recv retried (virtual time, producer goroutine)",
				Quick: q(map[string]int{"maxlen": 4}), Thorough: q(map[string]int{"maxlen": 6})},
			{Pkg: "gbn", Harness: "VH_C14_SendDeadline", MustReach: []string{"send-deadline"}, Synctest: true, What: "send deadline expiring inside a message, Send retried",
				Quick: q(map[string]int{"maxlen": 3}), Thorough: q(map[string]int{"maxlen": 5})},
		},
		Bounds: []string{"payload 0..4 x chunk 0..5 (quick), 0..9 x 0..10 (thorough), sequences of 2 messages; deadlines at every chunk boundary"},
		Outside: []string{"large payloads (symbolic-length variant not registered yet)", "transport faults (covered by C01)"},
	},
}
