package main

func q(params map[string]int) *TierOpt { return &TierOpt{Params: params} }

// qn: mailbox record-layer harnesses produce large array/UF queries that
// z3 5.1 (z3-new) decides several times faster than 4.8.12.
func qn(params map[string]int) *TierOpt { return &TierOpt{Params: params, Solver: "portfolio"} }
func qnT(params map[string]int, timeoutMs int) *TierOpt {
	return &TierOpt{Params: params, Solver: "portfolio", Timeout: timeoutMs}
}

func P(kv ...interface{}) map[string]int {
	m := map[string]int{}
	for i := 0; i+1 < len(kv); i += 2 {
		m[kv[i].(string)] = kv[i+1].(int)
	}
	return m
}

var commonAssumptions = []string{
	"go/ssa semantics as implemented by the engine (every counterexample is replayed against the natively compiled code before it is reported)",
	"logging (btclog.Logger), fmt.Sprintf/Errorf are empty stubs; error identity is exact",
	"sync/atomic/time/context are engine models (DESIGN.md section 4); memory model is sequentially consistent",
}

var props = map[string]*Prop{
	"C01": {
		ID: "C01",
		Runs: []Run{
			{Pkg: "gbn", Harness: "VH_C01_RecvStep", MustReach: []string{"recv-step"},
				What:  "O1: one iteration of the real receivePacketsForever for any DATA packet the channel invariant allows in flight (ghost offset delta in [-n,n)), n symbolic 1..254",
				Quick: q(P("maxlen", 2)), Thorough: q(P("maxlen", 6))},
			{Pkg: "gbn", Harness: "VH_C01_AckGhost", MustReach: []string{"ack-ghost"}, What: "O2: processACK in ghost terms: base offset becomes max(0,alpha+1) <= rho", Quick: q(nil)},
			{Pkg: "gbn", Harness: "VH_C01_NackGhost", MustReach: []string{"nack-ghost"}, What: "O3: processNACK in ghost terms: base offset becomes nu <= rho", Quick: q(nil)},
			{Pkg: "gbn", Harness: "VH_C09_Add", MustReach: []string{"add"}, What: "O4: addPacket labels the packet with the old top and grows the window by one", Quick: q(nil)},
			{Pkg: "gbn", Harness: "VH_C01_Resend", MustReach: []string{"resend"}, What: "O5: resend transmits exactly the outstanding packets, in order, from their slots (s <= maxn+1, base symbolic)",
				Quick: q(P("maxn", 4)), Thorough: q(P("maxn", 8))},
			{Pkg: "gbn", Harness: "VH_C09_Config", MustReach: []string{"config"}, What: "O6: s = n+1, content has s slots", Quick: q(nil)},
			{Pkg: "gbn", Harness: "VH_C01_Sim", MustReach: []string{"delivered"}, Synctest: true,
				What:     "(B) bounded whole-endpoint run: real client and server, both loops, tickers, syncer, timeout manager on the virtual clock; bidirectional traffic, symbolic payloads; symbolic fate (deliver/drop/duplicate) of the first `faults` packets of each direction; Recv sequence equals the peer's Send sequence",
				Quick:    &TierOpt{Params: P("maxn", 2, "msgs", 2, "faults", 3)},
				Thorough: &TierOpt{Params: P("maxn", 3, "msgs", 3, "faults", 4), Sched: 1, MaxPaths: 3000000}},
		},
		Assumptions: append([]string{"channel invariant of DESIGN.md Appendix C (per-direction FIFO with loss and in-place duplication): in-flight DATA has ghost offset in [rho-n, tau), ACK in [-1, rho), NACK in [0, rho]"}, commonAssumptions...),
		Bounds:      []string{"window size n symbolic 1..254 in O1-O4,O6; n<=4 (quick) / 8 (thorough) in O5; payload 0..2 / 0..6 symbolic bytes"},
		Outside:     []string{"reordering or forging transports (excluded by the statement)", "whole-endpoint interleavings beyond the bounded runs"},
	},
	"C07": {
		ID: "C07",
		Runs: []Run{
			{Pkg: "gbn", Harness: "VH_C07_Deserialize", MustReach: []string{"deserialize"},
				What:  "gbn.Deserialize on every byte string of length 0..maxlen (contents symbolic): no run-time panic, never (nil,nil)",
				Quick: q(P("maxlen", 8)), Thorough: q(P("maxlen", 64))},
			{Pkg: "gbn", Harness: "VH_C07_RecvLoopStep", MustReach: []string{"loop-step"},
				What:  "one iteration of the live receive loop from an arbitrary in-range window, arbitrary packet bytes of length 0..maxlen, every window size: no panic, bookkeeping stays in range",
				Quick: q(P("maxlen", 5)), Thorough: q(P("maxlen", 8))},
			{Pkg: "gbn", Harness: "VH_C07_ServerSYN", MustReach: []string{"data-phase"}, Synctest: true,
				What:  "real NewServerConn with every value 0..255 of the SYN window field, then SYNACK and a DATA packet",
				Quick: q(nil)},
			{Pkg: "mailbox", Harness: "VH_C19_MsgData_Canon", MustReach: []string{"canon", "rejected"}, What: "MsgData.Deserialize on every byte string of length 0..maxlen (32-bit length field fully symbolic)",
				Quick: q(P("maxlen", 10)), Thorough: q(P("maxlen", 40))},
			{Pkg: "mailbox", Harness: "VH_C07_KitJunk", MustReach: []string{"kit-junk"}, What: "connKit.Read on top of an arbitrary control message", Quick: q(P("maxlen", 9))},
			{Pkg: "mailbox", Harness: "VH_C07_NoiseJunk", MustReach: []string{"noise-junk"}, What: "handshake act parsing (both roles, both patterns) on arbitrary bytes of lengths around every field boundary", Quick: qn(nil)},
			{Pkg: "mailbox", Harness: "VH_C07_RecordJunk", MustReach: []string{"record-junk"}, What: "ReadMessage on an arbitrary byte stream of symbolic length 0..70000", Quick: qn(nil)},
		},
		Assumptions: commonAssumptions,
		Bounds:      []string{"packet length 0..8 (quick) / 0..64 (thorough), all byte values; all 256 SYN window values; all 256 ACK/NACK values x all (base,top) x all n"},
		Outside:     []string{"regexp/protojson JSON envelope (not encodable)"},
	},
	"C09": {
		ID: "C09",
		Runs: []Run{
			{Pkg: "gbn", Harness: "VH_C09_ACK", MustReach: []string{"ack"}, What: "processACK from any in-range window, every ACK value, every n in 1..254", Quick: q(nil)},
			{Pkg: "gbn", Harness: "VH_C09_NACK", MustReach: []string{"nack"}, What: "processNACK likewise", Quick: q(nil)},
			{Pkg: "gbn", Harness: "VH_C09_Add", MustReach: []string{"add"}, What: "addPacket from any non-full window", Quick: q(nil)},
			{Pkg: "gbn", Harness: "VH_C09_Contains", MustReach: []string{"contains"}, What: "containsSequence vs modular-interval reference", Quick: q(nil)},
			{Pkg: "gbn", Harness: "VH_C09_Config", MustReach: []string{"config"}, What: "newConfig/setN: s=n+1, content has s slots", Quick: q(nil)},
			{Pkg: "gbn", Harness: "VH_C07_ServerSYN", MustReach: []string{"data-phase"}, Synctest: true, What: "negotiated window: server's n equals the SYN's N, s=n+1 does not wrap (all 256 values)", Quick: q(nil)},
		},
		Assumptions: commonAssumptions,
		Bounds:      []string{"window size n symbolic in 1..254; base, top, seq full 8-bit domains"},
	},
	"C14": {
		ID: "C14",
		Runs: []Run{
			{Pkg: "gbn", Harness: "VH_C14_Small", MustReach: []string{"sent"}, What: "two consecutive messages, every (length, maxChunkSize) pair, symbolic contents: one Recv per Send, equal bytes",
				Quick: q(P("maxlen", 4, "maxchunk", 5)), Thorough: q(P("maxlen", 9, "maxchunk", 10))},
			{Pkg: "gbn", Harness: "VH_C14_Chunks", MustReach: []string{"chunks"}, What: "chunk sizes, FinalChunk placement and chunk contents",
				Quick: q(P("maxlen", 6, "maxchunk", 4)), Thorough: q(P("maxlen", 16, "maxchunk", 9))},
			{Pkg: "gbn", Harness: "VH_C14_RecvDeadline", MustReach: []string{"deadline"}, Synctest: true, What: "receive deadline expiring inside a message, Recv retried (virtual time, producer goroutine)",
				Quick: q(P("maxlen", 4)), Thorough: q(P("maxlen", 6))},
			{Pkg: "gbn", Harness: "VH_C14_SendDeadline", MustReach: []string{"send-deadline"}, Synctest: true, What: "send deadline expiring inside a message, Send retried",
				Quick: q(P("maxlen", 3)), Thorough: q(P("maxlen", 5))},
		},
		Assumptions: commonAssumptions,
		Bounds:      []string{"payload 0..4 x chunk 0..5 (quick), 0..9 x 0..10 (thorough), sequences of 2 messages; deadlines at every chunk boundary"},
		Outside:     []string{"transport faults (covered by C01)"},
	},
	"C19": {
		ID: "C19",
		Runs: []Run{
			{Pkg: "gbn", Harness: "VH_C19_GBN_RT", MustReach: []string{"roundtrip"}, What: "Deserialize(Serialize(m)) == m, six packet types, all field values, payload 0..maxlen symbolic bytes",
				Quick: q(P("maxlen", 8)), Thorough: q(P("maxlen", 64))},
			{Pkg: "gbn", Harness: "VH_C19_GBN_Canon", MustReach: []string{"canon"}, What: "any bytes of length 0..maxlen that deserialise re-serialise to an equal value",
				Quick: q(P("maxlen", 8)), Thorough: q(P("maxlen", 64))},
			{Pkg: "mailbox", Harness: "VH_C19_MsgData_RT", MustReach: []string{"roundtrip"}, What: "MsgData round trip, every version byte, payload 0..maxlen symbolic bytes",
				Quick: q(P("maxlen", 8)), Thorough: q(P("maxlen", 64))},
			{Pkg: "mailbox", Harness: "VH_C19_MsgData_Canon", MustReach: []string{"canon", "rejected"}, What: "any bytes of length 0..maxlen that deserialise as MsgData re-serialise to an equal value",
				Quick: q(P("maxlen", 10)), Thorough: q(P("maxlen", 40))},
		},
		Assumptions: commonAssumptions,
		Bounds:      []string{"payload / packet length 0..8 quick, 0..64 thorough; every byte and flag value symbolic"},
	},
	"C20": {
		ID: "C20",
		Runs: []Run{
			{Pkg: "gbn", Harness: "VH_C20_Step", MustReach: []string{"step"}, Synctest: true, What: "one Sent/Received event (every packet type, every sequence number) from an arbitrary valid adaptive TimeoutManager state, symbolic clock", Quick: q(nil)},
			{Pkg: "gbn", Harness: "VH_C20_NoSampleAfterResend", MustReach: []string{"syn-resent", "data-resent"}, Synctest: true, What: "a retransmitted DATA / resent SYN never yields a round-trip sample", Quick: q(nil)},
			{Pkg: "gbn", Harness: "VH_C20_Static", MustReach: []string{"static"}, Synctest: true, What: "two arbitrary events never change a static timeout", Quick: q(nil)},
			{Pkg: "gbn", Harness: "VH_C20_BoostFloor", MustReach: []string{"floor"}, What: "float32 boost arithmetic (SMT FloatingPoint): boosted value >= base, == base when the count is reset", Quick: q(nil)},
			{Pkg: "gbn", Harness: "VH_C20_GetResend", MustReach: []string{"getresend"}, What: "GetResendTimeout returns the booster's value", Quick: q(nil)},
		},
		Assumptions: append([]string{"state invariant of harness/gbn/c20.go (vTM)"}, commonAssumptions...),
		Bounds:      []string{"durations <= 2^40 ns, boost count <= 1024, percent in (0,1], multiplier in {1,2,5,16}, update frequency in {1,2,100}"},
		Outside:     []string{"durations above 2^40 ns, boost counts above 1024 (float32->int64 conversion overflow is outside the claim)"},
	},
	"C15": {
		ID: "C15",
		Runs: []Run{
			{Pkg: "mailbox", Harness: "VH_C15_GrpcStep", MustReach: []string{"step"}, What: "NoiseGrpcConn.Read inductive step: arbitrary carry-over (0..65535 bytes), one real record (1..65535) on the wire, buffer 1..70000",
				Quick: qn(nil)},
			{Pkg: "mailbox", Harness: "VH_C15_TcpStep", MustReach: []string{"step"}, What: "NoiseConn.Read inductive step (real bytes.Buffer carry-over)", Quick: qn(nil)},
			{Pkg: "mailbox", Harness: "VH_C15_KitStep", MustReach: []string{"step"}, What: "connKit.Read inductive step (real MsgData codec, real bytes.Buffer)", Quick: qn(nil)},
			{Pkg: "mailbox", Harness: "VH_C15_EmptyRecord", MustReach: []string{"empty-record"}, What: "zero-length record followed by a non-empty one, NoiseGrpcConn and NoiseConn", Quick: qn(nil)},
			{Pkg: "mailbox", Harness: "VH_C15_KitEmpty", MustReach: []string{"kit-empty"}, What: "empty control message on connKit", Quick: qn(nil)},
			{Pkg: "mailbox", Harness: "VH_C15_TcpWrite", MustReach: []string{"tcp-write"}, What: "NoiseConn.Write of symbolic length: chunked transparently, records concatenate to the payload",
				Quick: qn(P("maxwrite", 65700)), Thorough: qnT(P("maxwrite", 3*65535+1), 120000)},
			{Pkg: "mailbox", Harness: "VH_C15_GrpcWrite", MustReach: []string{"grpc-write"}, What: "NoiseGrpcConn.Write: <= 65535 written whole, above rejected with n=0 and nothing on the wire", Quick: qn(nil)},
			{Pkg: "mailbox", Harness: "VH_C15_GrpcRead", MustReach: []string{"read"}, What: "two real records, successive reads with arbitrary buffer sizes against the written stream (bounded history, complements the inductive steps)",
				Thorough: qnT(P("reads", 2), 120000)},
		},
		Assumptions: append([]string{"ideal AEAD (DESIGN.md 4.6): Open succeeds iff its operands are exactly a logged Seal", "carry-over invariant stated in harness/mailbox/c15.go"}, commonAssumptions...),
		Bounds:      []string{"record and carry-over lengths symbolic 0..65535, buffer size symbolic 1..70000, write length symbolic up to 65700 (quick) / 196606 (thorough); contents are uninterpreted streams compared at a symbolic witness index"},
		Outside:     []string{"real ChaCha20-Poly1305 arithmetic"},
	},
	"C16": {
		ID: "C16",
		Runs: []Run{
			{Pkg: "mailbox", Harness: "VH_C16_Flush", MustReach: []string{"flushed"}, What: "Machine.Flush with a writer accepting arbitrary prefixes for up to `splits` calls; record length symbolic 0..65535",
				Quick: qn(P("splits", 2)), Thorough: qnT(P("splits", 3), 120000)},
			{Pkg: "mailbox", Harness: "VH_C16_HandshakeShortReads", MustReach: []string{"short-reads"}, Synctest: true,
				What:  "real DoHandshake of both parties (XX v0/v1/v2 and KK) over a stream that fragments reads: bursts of `frags` short reads (1, 7 or len-1 bytes) at any of the first 7 read positions of either direction, or every read limited to 1 / 7 bytes",
				Quick: qn(P("frags", 2)), Thorough: qn(P("frags", 3))},
			{Pkg: "mailbox", Harness: "VH_C16_RecordShortReads", MustReach: []string{"record-short-reads"}, What: "a record (symbolic length) delivered with symbolic fragment sizes on up to `frags` reads",
				Quick: qn(P("frags", 1)), Thorough: qnT(P("frags", 2), 60000)},
		},
		Assumptions: append([]string{"ideal AEAD (DESIGN.md 4.6)"}, commonAssumptions...),
		Bounds:      []string{"plaintext length symbolic 0..65535; 2 (quick) / 3 (thorough) partial writes followed by complete ones, i.e. all 2-,3- and 4-way splits of the wire bytes"},
	},
	"C02": {
		ID: "C02",
		Runs: []Run{
			{Pkg: "mailbox", Harness: "VH_C02_Step", MustReach: []string{"script", "accepted", "rejected"},
				What:  "inductive step: reader in lock-step expecting record 0 or 1; relay input built from up to `segments` segments (honest slice / junk / other-direction slice / honest slice with one flipped byte), all offsets and lengths symbolic; one ReadMessage returns exactly the expected record or an error",
				Quick: qn(P("segments", 1)), Thorough: qnT(P("segments", 2), 60000)},
			{Pkg: "mailbox", Harness: "VH_C08_LockStep", MustReach: []string{"lockstep", "rotation"}, What: "after a correct record both ends are in lock-step again (closes the induction), replayed ciphertext rejected",
				Quick: qn(P("maxlen", 3))},
			{Pkg: "mailbox", Harness: "VH_C08_Frame", MustReach: []string{"frame"}, What: "directions use disjoint state and complementary keys", Quick: qn(nil)},
		},
		Assumptions: append([]string{"ideal AEAD with atomic ciphertexts, ideal HKDF (DESIGN.md 4.6): distinct ciphertext streams never coincide, a flipped ciphertext byte never equals an honest one", "adversary = edit scripts over the honest byte streams plus invented junk; an adversary who knows a key is outside the claim"}, commonAssumptions...),
		Bounds:      []string{"record lengths symbolic 0..65535; 1 (quick) / 2 (thorough) script segments with symbolic offsets; single-byte flips with symbolic position and mask; the check stops at the first error"},
		Outside:     []string{"computational strength of ChaCha20-Poly1305", "behaviour after the first read error"},
	},
	"C08": {
		ID: "C08",
		Runs: []Run{
			{Pkg: "mailbox", Harness: "VH_C08_LockStep", MustReach: []string{"lockstep", "rotation"}, What: "one Encrypt || one Decrypt from any lock-step state, nonce symbolic 0..999 incl. the rotation boundary; nonce freshness; replay rejected",
				Quick: qn(P("maxlen", 3)), Thorough: qn(P("maxlen", 16))},
			{Pkg: "mailbox", Harness: "VH_C08_Frame", MustReach: []string{"frame"}, What: "frame condition: one direction's traffic leaves the other direction untouched; keys complementary and distinct", Quick: qn(nil)},
			{Pkg: "mailbox", Harness: "VH_C08_NoPlaintext", MustReach: []string{"provenance"}, What: "syntactic provenance: no wire byte of a record (symbolic length) depends on the plaintext stream", Quick: qn(nil)},
			{Pkg: "mailbox", Harness: "VH_C08_ManyRecords", MustReach: []string{"many"}, What: "concrete-in-engine run across rotation boundaries (1100 records quick, 2500 thorough)",
				Quick: &TierOpt{Params: P("records", 1100), Solver: "portfolio", MaxSteps: 20_000_000}, Thorough: &TierOpt{Params: P("records", 2500), Solver: "portfolio", MaxSteps: 40_000_000}},
		},
		Assumptions: append([]string{"ideal AEAD / HKDF (DESIGN.md 4.6); HKDF output freshness is assumed, the lock-step of both ends is what is checked"}, commonAssumptions...),
		Bounds:      []string{"nonce symbolic in [0,999], key and salt symbolic; plaintext 0..3 (quick) / 0..16 bytes in the step; record length symbolic 0..65535 in the provenance check"},
	},
	"C03": {
		ID: "C03",
		Runs: []Run{
			{Pkg: "mailbox", Harness: "VH_C03_XX", MustReach: []string{"mismatch", "match"}, Synctest: true,
				What:  "real DoHandshake of both parties, two arbitrary 14-byte passphrase entropies, all version ranges, auth payload 0/7/600 bytes: mismatch => responder emits nothing and nobody gets keys",
				Quick: qn(P("fixver", 1)), Thorough: qn(P("fixver", 0))},
			{Pkg: "mailbox", Harness: "VH_C03_KK", MustReach: []string{"kk-mismatch", "kk-match"}, Synctest: true, What: "key-based handshake with arbitrary expected keys on either side", Quick: qn(nil)},
			{Pkg: "mailbox", Harness: "VH_C03_Unpaired", MustReach: []string{"unpaired"}, Synctest: true, What: "paired (KK) server against a client that only has the passphrase (XX)", Quick: qn(nil)},
		},
		Assumptions: append([]string{"ideal cryptography (DESIGN.md 4.6): collision-free hashes/HKDF/scrypt, DH commutative and injective, Unmask(Mask(e,pw),pw')=e iff pw=pw', ideal AEAD; an adversary who knows a key is outside the claim"}, commonAssumptions...),
		Bounds:      []string{"entropies fully symbolic (14 bytes each), static keys symbolic identities, version ranges {0,1,2}^4 (thorough) / client 0..2 x server max 0..2 (quick), auth payload 0/7/600 bytes"},
		Outside:     []string{"computational strength of the primitives", "side channels"},
	},
	"C04": {
		ID: "C04",
		Runs: []Run{
			{Pkg: "mailbox", Harness: "VH_C04_Honest", MustReach: []string{"honest", "both-complete"}, Synctest: true,
				What:  "XX, every (cMin,cMax,sMin,sMax) in {0,1,2}^4, auth payload lengths {0,1,7,498,499,600}: completion iff compatible, agreement on keys/version/identities/payload",
				Quick: qn(nil)},
			{Pkg: "mailbox", Harness: "VH_C04_KK", MustReach: []string{"kk", "both-complete"}, Synctest: true, What: "KK, all version ranges, same agreement predicate", Quick: qn(nil)},
			{Pkg: "mailbox", Harness: "VH_C04_MITM", MustReach: []string{"mitm", "both-complete"}, Synctest: true,
				What:     "active man-in-the-middle: version byte of every act replaced by every value 0..3 (all combinations), optionally one byte of every act XORed with a non-zero mask at a symbolic position; both completing => agreement",
				Quick:    qn(P("flips", 0)),
				Thorough: qnT(P("flips", 1), 60000)},
			{Pkg: "mailbox", Harness: "VH_C04_MITM", MustReach: []string{"mitm"}, Synctest: true,
				What:  "same with byte flips, deployed configuration (both sides support 0..2)",
				Quick: qn(P("flips", 1, "fixver", 1))},
			{Pkg: "mailbox", Harness: "VH_C04_MITM_KK", MustReach: []string{"mitm-kk"}, Synctest: true, What: "the same for the key-based pattern", Quick: qn(nil)},
		},
		Assumptions: append([]string{"ideal cryptography (DESIGN.md 4.6); a flipped ciphertext byte never authenticates; a flipped key byte parses to an arbitrary (possibly invalid, possibly replayed) point"}, commonAssumptions...),
		Bounds:      []string{"version ranges {0,1,2}^4; payload lengths {0,1,7,498,499,600}; MITM: all version-byte substitutions 0..3 on all acts at once, at most one flipped byte per act (symbolic position, symbolic non-zero mask)"},
		Outside:     []string{"multi-megabyte payloads (the v1/v2 framing is length-generic; only lengths up to 600 are run)", "an adversary that injects own key material (its DH results are ideal secrets)"},
	},
	"C06": {
		ID: "C06",
		Runs: []Run{
			{Pkg: "gbn", Harness: "VH_C06_Progress", MustReach: []string{"delivered", "quiet"}, Synctest: true,
				What:     "finite fault prefix then reliable transport (latency 0 or 300 ms), static/adaptive timeouts, keep-alive off/on, uni/bidirectional: delivery within 10 virtual minutes, no closure, no retransmission after everything is acknowledged",
				Quick:    &TierOpt{Params: P("maxn", 2, "msgs", 2, "faults", 2)},
				Thorough: &TierOpt{Params: P("maxn", 2, "msgs", 3, "faults", 3), Sched: 1, MaxPaths: 3000000}},
			{Pkg: "gbn", Harness: "VH_C06_TailBusy", MustReach: []string{"tail-delivered"}, Synctest: true,
				What:  "tail loss while the peer streams every 0.5 s: the lost packet is delivered within 6 s irrespective of the peer's traffic",
				Quick: q(P("peer_msgs", 40)), Thorough: q(P("peer_msgs", 200))},
		},
		Assumptions: commonAssumptions,
		Bounds:      []string{"window 1..2, 2-3 messages per direction, fate of the first 2 (quick) / 3 (thorough) packets per direction symbolic in {deliver, drop, duplicate}; default schedule plus <= 1 deviation in thorough; horizon 600 virtual seconds (40x the worst completion seen in native calibration)"},
		Outside:     []string{"fault sequences longer than the budget", "schedules with more deviations"},
	},
	"C17": {
		ID: "C17",
		Runs: []Run{
			{Pkg: "mailbox", Harness: "VH_C17_EntropyToWords", Inits: []string{"github.com/lightningnetwork/lnd/aezeed"}, MustReach: []string{"entropy-words"}, What: "fully symbolic 14-byte entropy (112 bits) -> words -> entropy == entropy & mask110 (bit-stream codec if-converted: one path)", Quick: qn(nil)},
			{Pkg: "mailbox", Harness: "VH_C17_WordsToEntropy", Inits: []string{"github.com/lightningnetwork/lnd/aezeed"}, MustReach: []string{"words-entropy"}, What: "10 symbolic word indices 0..2047 -> entropy -> the same words", Quick: qn(nil)},
			{Pkg: "mailbox", Harness: "VH_C17_NewPassphrase", Inits: []string{"github.com/lightningnetwork/lnd/aezeed"}, MustReach: []string{"new-passphrase"}, What: "NewPassphraseEntropy returns a pair related by the codec (rand.Read symbolic)", Quick: qn(nil)},
			{Pkg: "mailbox", Harness: "VH_C17_Direction", MustReach: []string{"direction"}, What: "GetSID direction bits for an arbitrary 64-byte session id", Quick: qn(nil)},
			{Pkg: "mailbox", Harness: "VH_C17_SID", MustReach: []string{"sid-passphrase", "sid-keys"}, What: "ConnData.SID: passphrase ids agree iff the 14-byte entropies agree; key-based ids agree between paired parties, differ from the passphrase id and from a third party's", Quick: qn(nil)},
		},
		Assumptions: append([]string{"inverse-table lemma ReverseWordMap[DefaultWordList[i]] == i checked concretely on the real 2048-entry tables of this run", "ideal SHA-512/HMAC/ECDH (collision freedom, DH commutativity)"}, commonAssumptions...),
		Bounds:      []string{"all 2^112 entropies and all 2048^10 phrases (single symbolic path each)"},
	},
	"C10": {
		ID: "C10",
		Runs: []Run{
			{Pkg: "gbn", Harness: "VH_C10_Handshake", MustReach: []string{"handshake-done", "fault-free", "exchanged"}, Synctest: true,
				What:     "real NewClientConn || NewServerConn on the virtual clock (keep-alive as deployed): symbolic fate (deliver/drop/duplicate) of the first `faults` handshake packets per direction, up to `maxstale` stale packets with symbolic bytes in either direction, three start orders, client window in {1,2,20,254}; then a request/reply exchange",
				Quick:    &TierOpt{Params: P("faults", 2, "maxstale", 1)},
				Thorough: &TierOpt{Params: P("faults", 3, "maxstale", 2), Sched: 1, MaxPaths: 5000000}},
			{Pkg: "gbn", Harness: "VH_C07_ServerSYN", MustReach: []string{"data-phase"}, Synctest: true, What: "server never adopts a window the protocol cannot represent (all 256 SYN values)", Quick: q(nil)},
		},
		Assumptions: append([]string{"oracle: no crash, no silent hang of a party (with no stale garbage), no foreign window, a fault-free attempt succeeds; a stray duplicate handshake packet tearing the fresh connection down visibly is the 'fails with an error' branch of the statement"}, commonAssumptions...),
		Bounds:      []string{"faults on the first 2 (quick) / 3 (thorough) packets per direction, <= 1 / 2 stale packets of 1..3 symbolic bytes, horizon 120 virtual seconds"},
	},
	"C12": {
		ID: "C12",
		Runs: []Run{
			{Pkg: "gbn", Harness: "VH_C12_Close", MustReach: []string{"closed", "quiesced"}, Synctest: true,
				What:     "Close injected at 5 points of virtual time (incl. inside resend waits) by client / server / both, once or twice, blocked Send and Recv present, transport healthy or silent, keep-alive on/off: Close returns in bounded time, calls fail, peer is told, no goroutine or ticker left",
				Quick:    &TierOpt{Params: P("faults", 0)},
				Thorough: &TierOpt{Params: P("faults", 1), Sched: 1, MaxPaths: 5000000}},
		},
		Assumptions: commonAssumptions,
		Bounds:      []string{"window 1..2, 0..N+1 queued messages, 5 close instants x default schedule (quick) / +1 schedule deviation and one symbolic packet fate (thorough)"},
		Outside:     []string{"Close during the GBN handshake itself (constructors call Close on failure: covered by C10 runs)"},
	},
	"C13": {
		ID: "C13",
		Runs: []Run{
			{Pkg: "gbn", Harness: "VH_C13_Blackhole", MustReach: []string{"dead-peer-detected"}, Synctest: true,
				What:  "keep-alive (5s/3s, 7s/3s, 1s/1s): transport goes silent after 0..1.5 s idle with 0..N+1 messages queued: connection closed within ping+pong+20 s",
				Quick: q(P("maxn", 2)), Thorough: q(P("maxn", 3))},
			{Pkg: "gbn", Harness: "VH_C13_Idle", MustReach: []string{"idle-ok"}, Synctest: true,
				What:  "healthy idle pair with response latency 0 / 45% / 90% of the pong timeout stays open for 10 virtual minutes and still works",
				Quick: &TierOpt{MaxSteps: 60_000_000}},
		},
		Assumptions: commonAssumptions,
		Bounds:      []string{"three ping/pong settings, window 1..2 (3 thorough), default schedule; the bound includes 20 s of slack for the (boosted) 3x resend-sync waits during which the send loop does not service tickers"},
	},
	"C18": {
		ID: "C18",
		Runs: []Run{
			{Pkg: "gbn", Harness: "VH_C18_Ticker", MustReach: []string{"ticker-ops"}, What: "every pair of the ticker operations the two loops perform (Reset, Pause, Resume, IsActive, tick receive), two goroutines, <= 2 schedule deviations, happens-before race detection",
				Quick: &TierOpt{Race: true, Sched: 2}},
			{Pkg: "gbn", Harness: "VH_C18_TimeoutManager", MustReach: []string{"tm-ops"}, What: "every pair of TimeoutManager operations", Quick: &TierOpt{Race: true, Sched: 2}},
			{Pkg: "gbn", Harness: "VH_C18_Queue", MustReach: []string{"queue-ops"}, What: "send-goroutine x receive-goroutine queue operations", Quick: &TierOpt{Race: true, Sched: 2}},
			{Pkg: "gbn", Harness: "VH_C18_Conn", MustReach: []string{"conn-race"}, Synctest: true,
				What:     "live pair with 1s/1s keep-alive; Send, Recv, timeout setters and Close from four application goroutines while the loops run; race mode",
				Quick:    &TierOpt{Race: true, Sched: 1, Params: P("faults", 0, "closepoints", 2)},
				Thorough: &TierOpt{Race: true, Sched: 2, Params: P("faults", 1, "closepoints", 4), MaxPaths: 3000000}},
			{Pkg: "gbn", Harness: "VH_C13_Idle", MustReach: []string{"idle-ok"}, Synctest: true, What: "ping ticks coinciding with packet arrivals over 10 virtual minutes (channel-misuse panics)", Quick: &TierOpt{MaxSteps: 60_000_000}},
		},
		Assumptions: append([]string{"race detection = vector clocks over go, channel, mutex, WaitGroup, Once, atomics (per-channel clocks over-approximate happens-before: races can be missed, never invented); sequentially consistent memory"}, commonAssumptions...),
		Bounds:      []string{"two to four application goroutines, <= 2 schedule deviations from the run-to-block default"},
		Outside:     []string{"weak-memory effects", "schedules needing more deviations"},
	},
}
