package main

var gbnFns = []string{}

func q(params map[string]int) *TierOpt { return &TierOpt{Params: params} }

var props = map[string]*Prop{
	"C07": {
		ID: "C07",
		Runs: []Run{
			{Pkg: "gbn", Harness: "VH_C07_Deserialize", MustReach: []string{"deserialize"},
				What:     "gbn.Deserialize on every byte string of length 0..maxlen (contents symbolic): no run-time panic, never (nil,nil)",
				Quick:    q(map[string]int{"maxlen": 8}),
				Thorough: q(map[string]int{"maxlen": 64})},
		},
		Assumptions: []string{},
		Bounds:      []string{"packet length 0..8 (quick) / 0..64 (thorough), all byte values"},
		Outside:     []string{"regexp/protojson JSON envelope (not encodable)"},
	},
	"C09": {
		ID: "C09",
		Runs: []Run{
			{Pkg: "gbn", Harness: "VH_C09_ACK", MustReach: []string{"ack"}, What: "processACK from any in-range window, every ACK value, every n in 1..254", Quick: q(nil)},
			{Pkg: "gbn", Harness: "VH_C09_NACK", MustReach: []string{"nack"}, What: "processNACK likewise", Quick: q(nil)},
			{Pkg: "gbn", Harness: "VH_C09_Add", MustReach: []string{"add"}, What: "addPacket from any non-full window", Quick: q(nil)},
			{Pkg: "gbn", Harness: "VH_C09_Contains", MustReach: []string{"contains"}, What: "containsSequence vs modular-interval reference", Quick: q(nil)},
			{Pkg: "gbn", Harness: "VH_C09_Config", MustReach: []string{"config"}, What: "newConfig/setN: s=n+1, content has s slots", Quick: q(nil)},
		},
		Bounds: []string{"window size n symbolic in 1..254; base, top, seq full 8-bit domains"},
	},
}
