package main

import (
	"flag"
	"runtime/pprof"
	"strconv"
	"fmt"
	"os"
	"strings"
	"time"

	"verif/engine/sym"
)

func main() {
	if len(os.Args) < 2 {
		fmt.Fprintln(os.Stderr, "usage: gosym run|check ...")
		os.Exit(2)
	}
	switch os.Args[1] {
	case "run":
		devRun(os.Args[2:])
	case "check":
		os.Exit(checkMain(os.Args[2:]))
	case "replay":
		os.Exit(replayMain(os.Args[2:]))
	default:
		fmt.Fprintln(os.Stderr, "unknown command", os.Args[1])
		os.Exit(2)
	}
}

func devRun(args []string) {
	fs := flag.NewFlagSet("run", flag.ExitOnError)
	pkg := fs.String("pkg", "gbn", "package dir under /repo")
	harness := fs.String("harness", "", "harness function name (comma separated)")
	trace := fs.Bool("trace", false, "trace instructions")
	workers := fs.Int("workers", 8, "workers")
	sched := fs.Int("sched", 0, "schedule deviation budget")
	race := fs.Bool("race", false, "race mode")
	maxPaths := fs.Int("maxpaths", 100000, "path limit")
	inits := fs.String("init", "", "extra init packages (comma separated)")
	solver := fs.String("solver", "z3", "z3|z3-new|cvc5")
	prof := fs.String("cpuprofile", "", "write cpu profile")
	params := fs.String("params", "", "harness parameters k=v,k=v")
	fs.Parse(args)
	if *prof != "" {
		f, _ := os.Create(*prof)
		pprof.StartCPUProfile(f)
		go func() {
			time.Sleep(25 * time.Second)
			pprof.StopCPUProfile()
			f.Close()
			os.Exit(3)
		}()
	}
	t0 := time.Now()
	cfg := sym.LoadConfig{RepoDir: repoDir + "/" + *pkg, HarnessDir: "/verif/harness/" + *pkg, Tags: []string{"verif", "math_big_pure_go"}, InitPkgs: defaultInits(*pkg)}
	if *inits != "" {
		cfg.InitPkgs = append(cfg.InitPkgs, strings.Split(*inits, ",")...)
	}
	p, err := sym.Load(cfg)
	if err != nil {
		fmt.Fprintln(os.Stderr, "load:", err)
		os.Exit(2)
	}
	fmt.Printf("loaded in %v\n", time.Since(t0))
	for _, h := range strings.Split(*harness, ",") {
		fn := p.Harness(h)
		if fn == nil {
			fmt.Println("no such harness", h)
			continue
		}
		opt := sym.DefaultOptions()
		opt.Workers = *workers
		opt.SchedBudget = *sched
		opt.RaceMode = *race
		opt.MaxPaths = *maxPaths
		opt.SolverName = *solver
		if *params != "" {
			opt.Params = map[string]int{}
			for _, kv := range strings.Split(*params, ",") {
				p := strings.SplitN(kv, "=", 2)
				v, _ := strconv.Atoi(p[1])
				opt.Params[p[0]] = v
			}
		}
		if *trace {
			opt.Trace = os.Stderr
			opt.Workers = 1
		}
		hr := sym.Explore(p, fn, opt)
		printResult(hr)
	}
}

func defaultInits(pkg string) []string {
	return []string{"io", "bytes"}
}

func printResult(hr *sym.HarnessResult) {
	fmt.Printf("== %s: paths=%d steps=%d queries=%d solver=%v wall=%v truncated=%v ends=%v\n", hr.Name, hr.Paths, hr.Steps, hr.Queries, hr.SolverTime.Round(time.Millisecond), hr.Wall.Round(time.Millisecond), hr.Truncated, hr.Ends)
	seen := map[string]int{}
	for _, v := range hr.Violations {
		k := v.Kind + v.Msg + v.Where
		seen[k]++
		if seen[k] == 1 {
			fmt.Printf("   VIOL %s: %s @ %s model=%v known=%q\n", v.Kind, v.Msg, v.Where, v.Model, v.Known)
		}
	}
	fmt.Printf("   violation classes=%d total=%d\n", len(seen), len(hr.Violations))
	for i, u := range hr.Unsupported {
		if i > 5 {
			break
		}
		fmt.Printf("   UNSUPPORTED %s\n", u)
	}
	for i, u := range hr.Inconcl {
		if i > 5 {
			break
		}
		fmt.Printf("   INCONCLUSIVE %s\n", u)
	}
	fmt.Printf("   reached=%v lemmas=%v\n", hr.Reached, hr.Lemmas)
}
