// load.go: front end. /repo is loaded with go/packages on every run, the
// harness files are injected by Overlay as /repo/<pkg>/zz_verif_*.go (nothing
// is written into /repo), SSA is built with generics instantiated.
package sym

import (
	"fmt"
	"go/token"
	"go/types"
	"os"
	"path/filepath"
	"strings"

	"golang.org/x/tools/go/packages"
	"golang.org/x/tools/go/ssa"
	"golang.org/x/tools/go/ssa/ssautil"
)

type LoadConfig struct {
	RepoDir    string   // e.g. /repo/gbn
	HarnessDir string   // e.g. /verif/harness/gbn ; all *.go files are overlaid
	Tags       []string // build tags
	InitPkgs   []string
}

func Load(cfg LoadConfig) (*Program, error) {
	overlay := map[string][]byte{}
	files, _ := filepath.Glob(filepath.Join(cfg.HarnessDir, "*.go"))
	for _, f := range files {
		b, err := os.ReadFile(f)
		if err != nil {
			return nil, err
		}
		base := filepath.Base(f)
		if strings.HasSuffix(base, "_test.go") {
			continue
		}
		overlay[filepath.Join(cfg.RepoDir, "zz_verif_"+base)] = b
	}
	// A change of /repo may rename or re-type something one harness file
	// uses. All harness files of a package are compiled together, so such a
	// file would take every check of the package down with it: harness files
	// that do not type-check against the current tree are dropped (with
	// their dependants, iteratively) and only their harnesses are reported
	// as not runnable.
	dropped := map[string]string{}
	var pkgs []*packages.Package
	var fset *token.FileSet
	for round := 0; ; round++ {
		fset = token.NewFileSet()
		pc := &packages.Config{
			Mode:    packages.LoadAllSyntax,
			Dir:     cfg.RepoDir,
			Fset:    fset,
			Overlay: overlay,
			Env:     append(os.Environ(), "GOFLAGS=-mod=mod", "GOPROXY=off"),
			Tests:   false,
		}
		if len(cfg.Tags) > 0 {
			pc.BuildFlags = []string{"-tags=" + strings.Join(cfg.Tags, ",")}
		}
		var err error
		pkgs, err = packages.Load(pc, ".")
		if err != nil {
			return nil, err
		}
		bad := map[string]string{}
		other := false
		for _, pk := range pkgs {
			for _, e := range pk.Errors {
				file := e.Pos
				if i := strings.Index(file, ":"); i > 0 {
					file = file[:i]
				}
				if _, ok := overlay[file]; ok && strings.HasPrefix(filepath.Base(file), "zz_verif_") && filepath.Base(file) != "zz_verif_api.go" {
					if _, seen := bad[file]; !seen {
						bad[file] = e.Msg
					}
				} else {
					other = true
				}
			}
		}
		if len(bad) == 0 || other || round >= 8 {
			if packages.PrintErrors(pkgs) > 0 {
				return nil, fmt.Errorf("package load errors")
			}
			break
		}
		for f, msg := range bad {
			delete(overlay, f)
			dropped[filepath.Base(f)] = msg
			fmt.Fprintf(os.Stderr, "harness file %s does not compile against this tree and is left out: %s\n", filepath.Base(f), msg)
		}
	}
	prog, spkgs := ssautil.AllPackages(pkgs, ssa.InstantiateGenerics)
	prog.Build()
	if len(spkgs) == 0 || spkgs[0] == nil {
		return nil, fmt.Errorf("no SSA package")
	}
	p := &Program{Prog: prog, Main: spkgs[0], Fset: fset, numbers: map[*ssa.Function]*fnInfo{}, InitPkgs: map[string]bool{}, Dropped: dropped}
	for _, ip := range cfg.InitPkgs {
		p.InitPkgs[ip] = true
	}
	p.InitPkgs[spkgs[0].Pkg.Path()] = true
	return p, nil
}

// Harness returns the function named name of the main package.
func (p *Program) Harness(name string) *ssa.Function {
	return p.Main.Func(name)
}

// Harnesses lists the functions of the main package whose name starts with prefix.
func (p *Program) Harnesses(prefix string) []string {
	var out []string
	for name, m := range p.Main.Members {
		if _, ok := m.(*ssa.Function); ok && strings.HasPrefix(name, prefix) {
			out = append(out, name)
		}
	}
	return out
}

var _ = types.Typ
