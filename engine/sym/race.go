// race.go: happens-before race detection with vector clocks (race mode).
// Synchronisation edges: go, channel send->receive (per channel, which
// over-approximates happens-before and therefore can only miss races, never
// invent them), close->receive, unlock->lock, WaitGroup Done->Wait, Once,
// atomics. The memory model is sequentially consistent.
package sym

import (
	"fmt"
	"go/token"
)

type cellState struct {
	wG   int
	wClk int
	wPos token.Pos
	wFn  string
	rds  map[int]int
	rPos map[int]token.Pos
}

type raceState struct {
	objVC map[interface{}]VC
	cells map[*Value]*cellState
	seen  map[string]bool
}



func newRaceState() *raceState {
	return &raceState{objVC: map[interface{}]VC{}, cells: map[*Value]*cellState{}, seen: map[string]bool{}}
}

func (ex *Exec) raceInit(main *Goroutine) { main.vc = VC{1} }

func vcGet(v VC, i int) int {
	if i < len(v) {
		return v[i]
	}
	return 0
}

func vcJoin(a, b VC) VC {
	n := len(a)
	if len(b) > n {
		n = len(b)
	}
	r := make(VC, n)
	for i := range r {
		x, y := vcGet(a, i), vcGet(b, i)
		if x > y {
			r[i] = x
		} else {
			r[i] = y
		}
	}
	return r
}

func (ex *Exec) tick(g *Goroutine) {
	for len(g.vc) <= g.id {
		g.vc = append(g.vc, 0)
	}
	g.vc[g.id]++
}

func (ex *Exec) raceFork(parent, child *Goroutine) {
	if parent == nil {
		child.vc = VC{}
	} else {
		child.vc = append(VC(nil), parent.vc...)
		ex.tick(parent)
	}
	ex.tick(child)
}

func (ex *Exec) raceAcquire(g *Goroutine, obj interface{}) {
	if g == nil {
		return
	}
	if v, ok := ex.race.objVC[obj]; ok {
		g.vc = vcJoin(g.vc, v)
	}
}

func (ex *Exec) raceRelease(g *Goroutine, obj interface{}) {
	if g == nil {
		return
	}
	ex.race.objVC[obj] = vcJoin(ex.race.objVC[obj], g.vc)
	ex.tick(g)
}

func (ex *Exec) raceAccess(g *Goroutine, slot *Value, write bool, pos token.Pos) {
	if g == nil || ex.race == nil {
		return
	}
	cs, ok := ex.race.cells[slot]
	if !ok {
		cs = &cellState{wG: -1, rds: map[int]int{}, rPos: map[int]token.Pos{}}
		ex.race.cells[slot] = cs
	}
	fr := ex.topFrame(g)
	here := ex.where(fr, pos)
	reportRace := func(otherG int, otherPos token.Pos, kind string) {
		other := ex.where(nil, otherPos)
		key := here + "|" + other
		if ex.race.seen[key] {
			return
		}
		ex.race.seen[key] = true
		ex.report(&Violation{Kind: "race", Msg: fmt.Sprintf("data race (%s): g%d at %s vs g%d at %s", kind, g.id, here, otherG, other), Where: here})
	}
	// conflict with the last write?
	if cs.wG >= 0 && cs.wG != g.id && cs.wClk > vcGet(g.vc, cs.wG) {
		if write {
			reportRace(cs.wG, cs.wPos, "write/write")
		} else {
			reportRace(cs.wG, cs.wPos, "read/write")
		}
	}
	if write {
		for rg, rc := range cs.rds {
			if rg != g.id && rc > vcGet(g.vc, rg) {
				reportRace(rg, cs.rPos[rg], "write/read")
			}
		}
		cs.wG, cs.wClk, cs.wPos = g.id, vcGet(g.vc, g.id), pos
		cs.rds = map[int]int{}
		cs.rPos = map[int]token.Pos{}
	} else {
		cs.rds[g.id] = vcGet(g.vc, g.id)
		cs.rPos[g.id] = pos
	}
}
