// Package sym is a symbolic executor for go/ssa with an SMT-LIB2 back end.
//
// term.go: hash-consed SMT terms with constant folding. Machine integers are
// bit-vectors of their Go width (wrap-around = SMT bit-vector semantics),
// booleans are Bool, floats are FloatingPoint.
package sym

import (
	"fmt"
	"math"
	"math/bits"
	"strconv"
	"strings"
)

type SortKind uint8

const (
	KBool SortKind = iota
	KBV
	KFP
)

type Sort struct {
	K SortKind
	W int // bit width (BV), or 32/64 for FP
}

var BoolSort = Sort{KBool, 0}

func BV(w int) Sort { return Sort{KBV, w} }
func FP(w int) Sort { return Sort{KFP, w} }

func (s Sort) String() string {
	switch s.K {
	case KBool:
		return "Bool"
	case KBV:
		return fmt.Sprintf("(_ BitVec %d)", s.W)
	default:
		if s.W == 32 {
			return "(_ FloatingPoint 8 24)"
		}
		return "(_ FloatingPoint 11 53)"
	}
}

type Op uint8

const (
	OConst Op = iota
	OVar
	OUF // uninterpreted function application; name in Name, result sort in Sort
	OAdd
	OSub
	OMul
	OUDiv
	OURem
	OSDiv
	OSRem
	OAnd
	OOr
	OXor
	OShl
	OLShr
	OAShr
	ONot // bvnot
	ONeg // bvneg
	OEq
	OUlt
	OUle
	OSlt
	OSle
	OIte
	OBAnd // boolean and
	OBOr
	OBNot
	OExtract // A=hi, B=lo
	OConcat
	OZExt // to Sort.W
	OSExt
	OFPFromSBV // signed bv -> fp (RNE)
	OFPFromUBV
	OFPToSBV // fp -> signed bv (RTZ); W in sort
	OFPToUBV
	OFPFromFP // fp -> fp of other width
	OFPMul
	OFPAdd
	OFPSub
	OFPDiv
	OFPLt
	OFPLe
	OFPEq
	OFPNeg
	OFPBits // fp -> bv (via fresh var axiom is not needed: unsupported in folding)
)

type Term struct {
	ID   int
	Op   Op
	Sort Sort
	Args []*Term
	Val  uint64 // constant payload (BV value masked, Bool 0/1, FP bits)
	Name string // var / UF name
	A, B int    // extract hi/lo
}

// Ctx owns the hash-cons table. Not safe for concurrent use: one per worker.
type Ctx struct {
	tab    map[string]*Term
	nextID int
	fresh  int
	// UF signatures declared so far: name -> (arg sorts, result sort)
	UFs map[string]*UFSig
	// variables in creation order (for declarations and models)
	Vars []*Term
	// memoised free-symbol sets (variable term IDs; UFs by negative pseudo id)
	varsMemo map[int][]int
	ufIDs    map[string]int
}

// SymbolsOf returns the sorted set of free symbols of t: IDs of variables and
// a negative pseudo-id per uninterpreted function name.
func (c *Ctx) SymbolsOf(t *Term) []int {
	if c.varsMemo == nil {
		c.varsMemo = map[int][]int{}
		c.ufIDs = map[string]int{}
	}
	if v, ok := c.varsMemo[t.ID]; ok {
		return v
	}
	var res []int
	switch t.Op {
	case OConst:
	case OVar:
		res = []int{t.ID}
	default:
		if t.Op == OUF {
			id, ok := c.ufIDs[t.Name]
			if !ok {
				id = -(len(c.ufIDs) + 1)
				c.ufIDs[t.Name] = id
			}
			res = []int{id}
		}
		for _, a := range t.Args {
			res = mergeSorted(res, c.SymbolsOf(a))
		}
	}
	c.varsMemo[t.ID] = res
	return res
}

func mergeSorted(a, b []int) []int {
	if len(a) == 0 {
		return b
	}
	if len(b) == 0 {
		return a
	}
	out := make([]int, 0, len(a)+len(b))
	i, j := 0, 0
	for i < len(a) && j < len(b) {
		switch {
		case a[i] < b[j]:
			out = append(out, a[i])
			i++
		case a[i] > b[j]:
			out = append(out, b[j])
			j++
		default:
			out = append(out, a[i])
			i++
			j++
		}
	}
	out = append(out, a[i:]...)
	out = append(out, b[j:]...)
	return out
}

type UFSig struct {
	Name string
	Args []Sort
	Res  Sort
}

func NewCtx() *Ctx {
	return &Ctx{tab: map[string]*Term{}, UFs: map[string]*UFSig{}}
}

func mask(w int) uint64 {
	if w >= 64 {
		return ^uint64(0)
	}
	return (uint64(1) << uint(w)) - 1
}

func (c *Ctx) mk(t *Term) *Term {
	var sb strings.Builder
	sb.WriteString(strconv.Itoa(int(t.Op)))
	sb.WriteByte('|')
	sb.WriteString(strconv.Itoa(int(t.Sort.K)*1000 + t.Sort.W))
	sb.WriteByte('|')
	switch t.Op {
	case OConst:
		sb.WriteString(strconv.FormatUint(t.Val, 16))
	case OVar, OUF:
		sb.WriteString(t.Name)
	case OExtract:
		sb.WriteString(strconv.Itoa(t.A))
		sb.WriteByte(':')
		sb.WriteString(strconv.Itoa(t.B))
	}
	for _, a := range t.Args {
		sb.WriteByte(',')
		sb.WriteString(strconv.Itoa(a.ID))
	}
	k := sb.String()
	if old, ok := c.tab[k]; ok {
		return old
	}
	t.ID = c.nextID
	c.nextID++
	c.tab[k] = t
	if t.Op == OVar {
		c.Vars = append(c.Vars, t)
	}
	return t
}

func (t *Term) IsConst() bool { return t.Op == OConst }

func (c *Ctx) Const(s Sort, v uint64) *Term {
	switch s.K {
	case KBV:
		v &= mask(s.W)
	case KBool:
		v &= 1
	}
	return c.mk(&Term{Op: OConst, Sort: s, Val: v})
}
func (c *Ctx) Bool(b bool) *Term {
	if b {
		return c.Const(BoolSort, 1)
	}
	return c.Const(BoolSort, 0)
}
func (c *Ctx) True() *Term  { return c.Bool(true) }
func (c *Ctx) False() *Term { return c.Bool(false) }

func (c *Ctx) Var(name string, s Sort) *Term {
	return c.mk(&Term{Op: OVar, Sort: s, Name: name})
}

// Fresh returns a new variable with a unique name derived from hint.
func (c *Ctx) Fresh(hint string, s Sort) *Term {
	c.fresh++
	return c.Var(fmt.Sprintf("%s!%d", hint, c.fresh), s)
}

func (c *Ctx) UF(name string, res Sort, args ...*Term) *Term {
	if _, ok := c.UFs[name]; !ok {
		sig := &UFSig{Name: name, Res: res}
		for _, a := range args {
			sig.Args = append(sig.Args, a.Sort)
		}
		c.UFs[name] = sig
	}
	return c.mk(&Term{Op: OUF, Sort: res, Name: name, Args: args})
}

func sext64(v uint64, w int) int64 {
	if w >= 64 {
		return int64(v)
	}
	sh := uint(64 - w)
	return int64(v<<sh) >> sh
}

func (t *Term) IsTrue() bool  { return t.Op == OConst && t.Sort.K == KBool && t.Val == 1 }
func (t *Term) IsFalse() bool { return t.Op == OConst && t.Sort.K == KBool && t.Val == 0 }

// Bin builds a bit-vector binary operation (both operands of the same width).
func (c *Ctx) Bin(op Op, a, b *Term) *Term {
	if a.Sort != b.Sort {
		panic(fmt.Sprintf("sort mismatch in op %d: %v vs %v", op, a.Sort, b.Sort))
	}
	w := a.Sort.W
	if a.IsConst() && b.IsConst() {
		x, y := a.Val, b.Val
		var r uint64
		ok := true
		switch op {
		case OAdd:
			r = x + y
		case OSub:
			r = x - y
		case OMul:
			r = x * y
		case OUDiv:
			if y == 0 {
				r = mask(w)
			} else {
				r = x / y
			}
		case OURem:
			if y == 0 {
				r = x
			} else {
				r = x % y
			}
		case OSDiv:
			sx, sy := sext64(x, w), sext64(y, w)
			if sy == 0 {
				if sx >= 0 {
					r = mask(w)
				} else {
					r = 1
				}
			} else if sy == -1 {
				r = uint64(-sx)
			} else {
				r = uint64(sx / sy)
			}
		case OSRem:
			sx, sy := sext64(x, w), sext64(y, w)
			if sy == 0 {
				r = x
			} else if sy == -1 {
				r = 0
			} else {
				r = uint64(sx % sy)
			}
		case OAnd:
			r = x & y
		case OOr:
			r = x | y
		case OXor:
			r = x ^ y
		case OShl:
			if y >= uint64(w) {
				r = 0
			} else {
				r = x << y
			}
		case OLShr:
			if y >= uint64(w) {
				r = 0
			} else {
				r = x >> y
			}
		case OAShr:
			sx := sext64(x, w)
			if y >= uint64(w) {
				if sx < 0 {
					r = mask(w)
				} else {
					r = 0
				}
			} else {
				r = uint64(sx >> y)
			}
		default:
			ok = false
		}
		if ok {
			return c.Const(a.Sort, r)
		}
	}
	// light algebraic simplification
	switch op {
	case OAdd:
		if a.IsConst() && a.Val == 0 {
			return b
		}
		if b.IsConst() && b.Val == 0 {
			return a
		}
		// (x + c1) + c2 -> x + (c1+c2)
		if b.IsConst() && a.Op == OAdd && a.Args[1].IsConst() {
			return c.Bin(OAdd, a.Args[0], c.Const(a.Sort, a.Args[1].Val+b.Val))
		}
		if a.IsConst() && !b.IsConst() {
			return c.Bin(OAdd, b, a)
		}
	case OSub:
		if b.IsConst() && b.Val == 0 {
			return a
		}
		if a == b {
			return c.Const(a.Sort, 0)
		}
		if b.IsConst() {
			return c.Bin(OAdd, a, c.Const(a.Sort, -b.Val))
		}
	case OMul:
		if a.IsConst() && a.Val == 1 {
			return b
		}
		if b.IsConst() && b.Val == 1 {
			return a
		}
		if (a.IsConst() && a.Val == 0) || (b.IsConst() && b.Val == 0) {
			return c.Const(a.Sort, 0)
		}
	case OAnd:
		if a == b {
			return a
		}
		if a.IsConst() && a.Val == 0 || b.IsConst() && b.Val == 0 {
			return c.Const(a.Sort, 0)
		}
		if a.IsConst() && a.Val == mask(w) {
			return b
		}
		if b.IsConst() && b.Val == mask(w) {
			return a
		}
	case OOr, OXor:
		if a.IsConst() && a.Val == 0 {
			return b
		}
		if b.IsConst() && b.Val == 0 {
			return a
		}
		if a == b {
			if op == OOr {
				return a
			}
			return c.Const(a.Sort, 0)
		}
	case OShl, OLShr, OAShr:
		if b.IsConst() && b.Val == 0 {
			return a
		}
	case OUDiv, OSDiv:
		if b.IsConst() && b.Val == 1 {
			return a
		}
	}
	return c.mk(&Term{Op: op, Sort: a.Sort, Args: []*Term{a, b}})
}

func (c *Ctx) Un(op Op, a *Term) *Term {
	if a.IsConst() {
		switch op {
		case ONot:
			return c.Const(a.Sort, ^a.Val)
		case ONeg:
			return c.Const(a.Sort, -a.Val)
		}
	}
	if a.Op == op {
		return a.Args[0]
	}
	return c.mk(&Term{Op: op, Sort: a.Sort, Args: []*Term{a}})
}

// Cmp builds a comparison yielding Bool.
func (c *Ctx) Cmp(op Op, a, b *Term) *Term {
	if a.Sort != b.Sort {
		panic(fmt.Sprintf("sort mismatch in cmp %d: %v vs %v", op, a.Sort, b.Sort))
	}
	if a.Sort.K == KBool && op == OEq {
		// boolean equality
		if a.IsConst() {
			if a.Val == 1 {
				return b
			}
			return c.Not(b)
		}
		if b.IsConst() {
			if b.Val == 1 {
				return a
			}
			return c.Not(a)
		}
		if a == b {
			return c.True()
		}
		return c.mk(&Term{Op: OEq, Sort: BoolSort, Args: []*Term{a, b}})
	}
	w := a.Sort.W
	if a.IsConst() && b.IsConst() && a.Sort.K == KBV {
		x, y := a.Val, b.Val
		switch op {
		case OEq:
			return c.Bool(x == y)
		case OUlt:
			return c.Bool(x < y)
		case OUle:
			return c.Bool(x <= y)
		case OSlt:
			return c.Bool(sext64(x, w) < sext64(y, w))
		case OSle:
			return c.Bool(sext64(x, w) <= sext64(y, w))
		}
	}
	if a == b {
		switch op {
		case OEq, OUle, OSle:
			return c.True()
		case OUlt, OSlt:
			return c.False()
		}
	}
	if a.Sort.K == KBV {
		switch op {
		case OUlt:
			if b.IsConst() && b.Val == 0 {
				return c.False()
			}
		case OUle:
			if a.IsConst() && a.Val == 0 {
				return c.True()
			}
			if b.IsConst() && b.Val == mask(w) {
				return c.True()
			}
		case OEq:
			// ite(c, k1, k2) == k  with constants
			if b.IsConst() && a.Op == OIte && a.Args[1].IsConst() && a.Args[2].IsConst() {
				t1 := a.Args[1].Val == b.Val
				t2 := a.Args[2].Val == b.Val
				switch {
				case t1 && t2:
					return c.True()
				case t1:
					return a.Args[0]
				case t2:
					return c.Not(a.Args[0])
				default:
					return c.False()
				}
			}
			if a.IsConst() && !b.IsConst() {
				return c.Cmp(OEq, b, a)
			}
			// zext(x) == const
			if b.IsConst() && a.Op == OZExt {
				in := a.Args[0]
				if b.Val > mask(in.Sort.W) {
					return c.False()
				}
				return c.Cmp(OEq, in, c.Const(in.Sort, b.Val))
			}
		}
	}
	return c.mk(&Term{Op: op, Sort: BoolSort, Args: []*Term{a, b}})
}

func (c *Ctx) Eq(a, b *Term) *Term { return c.Cmp(OEq, a, b) }

func (c *Ctx) Not(a *Term) *Term {
	if a.IsConst() {
		return c.Bool(a.Val == 0)
	}
	if a.Op == OBNot {
		return a.Args[0]
	}
	return c.mk(&Term{Op: OBNot, Sort: BoolSort, Args: []*Term{a}})
}

func (c *Ctx) And(a, b *Term) *Term {
	if a.IsFalse() || b.IsFalse() {
		return c.False()
	}
	if a.IsTrue() {
		return b
	}
	if b.IsTrue() {
		return a
	}
	if a == b {
		return a
	}
	if c.Not(a) == b {
		return c.False()
	}
	return c.mk(&Term{Op: OBAnd, Sort: BoolSort, Args: []*Term{a, b}})
}

func (c *Ctx) Or(a, b *Term) *Term {
	if a.IsTrue() || b.IsTrue() {
		return c.True()
	}
	if a.IsFalse() {
		return b
	}
	if b.IsFalse() {
		return a
	}
	if a == b {
		return a
	}
	if c.Not(a) == b {
		return c.True()
	}
	return c.mk(&Term{Op: OBOr, Sort: BoolSort, Args: []*Term{a, b}})
}

func (c *Ctx) Implies(a, b *Term) *Term { return c.Or(c.Not(a), b) }

func (c *Ctx) AndN(ts ...*Term) *Term {
	r := c.True()
	for _, t := range ts {
		r = c.And(r, t)
	}
	return r
}

func (c *Ctx) Ite(cond, a, b *Term) *Term {
	if cond.IsTrue() {
		return a
	}
	if cond.IsFalse() {
		return b
	}
	if a == b {
		return a
	}
	if a.Sort != b.Sort {
		panic(fmt.Sprintf("ite sort mismatch %v vs %v", a.Sort, b.Sort))
	}
	if a.Sort.K == KBool {
		if a.IsTrue() && b.IsFalse() {
			return cond
		}
		if a.IsFalse() && b.IsTrue() {
			return c.Not(cond)
		}
		if a.IsTrue() {
			return c.Or(cond, b)
		}
		if a.IsFalse() {
			return c.And(c.Not(cond), b)
		}
		if b.IsTrue() {
			return c.Or(c.Not(cond), a)
		}
		if b.IsFalse() {
			return c.And(cond, a)
		}
	}
	return c.mk(&Term{Op: OIte, Sort: a.Sort, Args: []*Term{cond, a, b}})
}

func (c *Ctx) Extract(a *Term, hi, lo int) *Term {
	w := hi - lo + 1
	if lo == 0 && w == a.Sort.W {
		return a
	}
	if a.IsConst() {
		return c.Const(BV(w), a.Val>>uint(lo))
	}
	if (a.Op == OZExt || a.Op == OSExt) && hi < a.Args[0].Sort.W {
		return c.Extract(a.Args[0], hi, lo)
	}
	if a.Op == OZExt && lo >= a.Args[0].Sort.W {
		return c.Const(BV(w), 0)
	}
	if a.Op == OConcat {
		lw := a.Args[1].Sort.W
		if hi < lw {
			return c.Extract(a.Args[1], hi, lo)
		}
		if lo >= lw {
			return c.Extract(a.Args[0], hi-lw, lo-lw)
		}
	}
	return c.mk(&Term{Op: OExtract, Sort: BV(w), Args: []*Term{a}, A: hi, B: lo})
}

func (c *Ctx) Concat(hi, lo *Term) *Term {
	w := hi.Sort.W + lo.Sort.W
	if hi.IsConst() && lo.IsConst() && w <= 64 {
		return c.Const(BV(w), hi.Val<<uint(lo.Sort.W)|lo.Val)
	}
	if hi.IsConst() && hi.Val == 0 {
		return c.ZExt(lo, w)
	}
	return c.mk(&Term{Op: OConcat, Sort: BV(w), Args: []*Term{hi, lo}})
}

func (c *Ctx) ZExt(a *Term, w int) *Term {
	if a.Sort.W == w {
		return a
	}
	if a.Sort.W > w {
		return c.Extract(a, w-1, 0)
	}
	if a.IsConst() {
		return c.Const(BV(w), a.Val)
	}
	if a.Op == OZExt {
		return c.ZExt(a.Args[0], w)
	}
	return c.mk(&Term{Op: OZExt, Sort: BV(w), Args: []*Term{a}})
}

func (c *Ctx) SExt(a *Term, w int) *Term {
	if a.Sort.W == w {
		return a
	}
	if a.Sort.W > w {
		return c.Extract(a, w-1, 0)
	}
	if a.IsConst() {
		return c.Const(BV(w), uint64(sext64(a.Val, a.Sort.W)))
	}
	if a.Op == OZExt {
		// sign bit is zero
		return c.ZExt(a.Args[0], w)
	}
	return c.mk(&Term{Op: OSExt, Sort: BV(w), Args: []*Term{a}})
}

// ---- floating point ----

func fpFromBits(w int, b uint64) float64 {
	if w == 32 {
		return float64(math.Float32frombits(uint32(b)))
	}
	return math.Float64frombits(b)
}
func fpToBits(w int, f float64) uint64 {
	if w == 32 {
		return uint64(math.Float32bits(float32(f)))
	}
	return math.Float64bits(f)
}

func (c *Ctx) FPConst(w int, f float64) *Term { return c.Const(FP(w), fpToBits(w, f)) }

func (c *Ctx) FPBin(op Op, a, b *Term) *Term {
	w := a.Sort.W
	if a.IsConst() && b.IsConst() {
		x, y := fpFromBits(w, a.Val), fpFromBits(w, b.Val)
		var r float64
		if w == 32 {
			x32, y32 := float32(x), float32(y)
			var r32 float32
			switch op {
			case OFPMul:
				r32 = x32 * y32
			case OFPAdd:
				r32 = x32 + y32
			case OFPSub:
				r32 = x32 - y32
			case OFPDiv:
				r32 = x32 / y32
			}
			return c.FPConst(w, float64(r32))
		}
		switch op {
		case OFPMul:
			r = x * y
		case OFPAdd:
			r = x + y
		case OFPSub:
			r = x - y
		case OFPDiv:
			r = x / y
		}
		return c.FPConst(w, r)
	}
	return c.mk(&Term{Op: op, Sort: a.Sort, Args: []*Term{a, b}})
}

func (c *Ctx) FPCmp(op Op, a, b *Term) *Term {
	w := a.Sort.W
	if a.IsConst() && b.IsConst() {
		x, y := fpFromBits(w, a.Val), fpFromBits(w, b.Val)
		switch op {
		case OFPLt:
			return c.Bool(x < y)
		case OFPLe:
			return c.Bool(x <= y)
		case OFPEq:
			return c.Bool(x == y)
		}
	}
	return c.mk(&Term{Op: op, Sort: BoolSort, Args: []*Term{a, b}})
}

func (c *Ctx) FPNeg(a *Term) *Term {
	if a.IsConst() {
		return c.FPConst(a.Sort.W, -fpFromBits(a.Sort.W, a.Val))
	}
	return c.mk(&Term{Op: OFPNeg, Sort: a.Sort, Args: []*Term{a}})
}

// FPFromInt converts a bit-vector (signed or unsigned) to a float of width w.
func (c *Ctx) FPFromInt(a *Term, signed bool, w int) *Term {
	if a.IsConst() {
		var f float64
		if signed {
			f = float64(sext64(a.Val, a.Sort.W))
		} else {
			f = float64(a.Val)
		}
		if w == 32 {
			if signed {
				f = float64(float32(sext64(a.Val, a.Sort.W)))
			} else {
				f = float64(float32(a.Val))
			}
		}
		return c.FPConst(w, f)
	}
	op := OFPFromUBV
	if signed {
		op = OFPFromSBV
	}
	return c.mk(&Term{Op: op, Sort: FP(w), Args: []*Term{a}})
}

// FPToInt converts a float to a bit-vector of width w (truncation toward zero).
// Out-of-range results are unspecified in SMT-LIB just as they are
// implementation-defined in Go; harnesses bound the operands.
func (c *Ctx) FPToInt(a *Term, signed bool, w int) *Term {
	if a.IsConst() {
		f := fpFromBits(a.Sort.W, a.Val)
		if signed {
			return c.Const(BV(w), uint64(int64(f)))
		}
		return c.Const(BV(w), uint64(f))
	}
	op := OFPToUBV
	if signed {
		op = OFPToSBV
	}
	return c.mk(&Term{Op: op, Sort: BV(w), Args: []*Term{a}})
}

func (c *Ctx) FPFromFP(a *Term, w int) *Term {
	if a.Sort.W == w {
		return a
	}
	if a.IsConst() {
		return c.FPConst(w, fpFromBits(a.Sort.W, a.Val))
	}
	return c.mk(&Term{Op: OFPFromFP, Sort: FP(w), Args: []*Term{a}})
}

// ---- printing ----

var opNames = map[Op]string{
	OAdd: "bvadd", OSub: "bvsub", OMul: "bvmul", OUDiv: "bvudiv", OURem: "bvurem",
	OSDiv: "bvsdiv", OSRem: "bvsrem", OAnd: "bvand", OOr: "bvor", OXor: "bvxor",
	OShl: "bvshl", OLShr: "bvlshr", OAShr: "bvashr", ONot: "bvnot", ONeg: "bvneg",
	OEq: "=", OUlt: "bvult", OUle: "bvule", OSlt: "bvslt", OSle: "bvsle",
	OIte: "ite", OBAnd: "and", OBOr: "or", OBNot: "not", OConcat: "concat",
	OFPMul: "fp.mul RNE", OFPAdd: "fp.add RNE", OFPSub: "fp.sub RNE", OFPDiv: "fp.div RNE",
	OFPLt: "fp.lt", OFPLe: "fp.leq", OFPEq: "fp.eq", OFPNeg: "fp.neg",
}

func smtName(n string) string {
	return "|" + strings.ReplaceAll(strings.ReplaceAll(n, "|", "_"), "\\", "_") + "|"
}

func constString(t *Term) string {
	switch t.Sort.K {
	case KBool:
		if t.Val == 1 {
			return "true"
		}
		return "false"
	case KBV:
		if t.Sort.W%4 == 0 {
			return fmt.Sprintf("#x%0*x", t.Sort.W/4, t.Val)
		}
		return fmt.Sprintf("#b%0*b", t.Sort.W, t.Val)
	default:
		if t.Sort.W == 32 {
			b := uint32(t.Val)
			return fmt.Sprintf("(fp #b%01b #b%08b #b%023b)", b>>31, (b>>23)&0xff, b&0x7fffff)
		}
		b := t.Val
		return fmt.Sprintf("(fp #b%01b #b%011b #b%052b)", b>>63, (b>>52)&0x7ff, b&((1<<52)-1))
	}
}

func fpParams(w int) string {
	if w == 32 {
		return "8 24"
	}
	return "11 53"
}

// head returns the operator text for a non-leaf term.
func (t *Term) head() string {
	switch t.Op {
	case OExtract:
		return fmt.Sprintf("(_ extract %d %d)", t.A, t.B)
	case OZExt:
		return fmt.Sprintf("(_ zero_extend %d)", t.Sort.W-t.Args[0].Sort.W)
	case OSExt:
		return fmt.Sprintf("(_ sign_extend %d)", t.Sort.W-t.Args[0].Sort.W)
	case OFPFromSBV:
		return fmt.Sprintf("(_ to_fp %s) RNE", fpParams(t.Sort.W))
	case OFPFromUBV:
		return fmt.Sprintf("(_ to_fp_unsigned %s) RNE", fpParams(t.Sort.W))
	case OFPToSBV:
		return fmt.Sprintf("(_ fp.to_sbv %d) RTZ", t.Sort.W)
	case OFPToUBV:
		return fmt.Sprintf("(_ fp.to_ubv %d) RTZ", t.Sort.W)
	case OFPFromFP:
		return fmt.Sprintf("(_ to_fp %s) RNE", fpParams(t.Sort.W))
	case OUF:
		return smtName(t.Name)
	}
	if s, ok := opNames[t.Op]; ok {
		return s
	}
	panic(fmt.Sprintf("no smt name for op %d", t.Op))
}

// String renders a term fully (no sharing); for diagnostics only.
func (t *Term) String() string {
	switch t.Op {
	case OConst:
		if t.Sort.K == KBV {
			return fmt.Sprintf("%d:%d", t.Val, t.Sort.W)
		}
		return constString(t)
	case OVar:
		return t.Name
	}
	var sb strings.Builder
	sb.WriteByte('(')
	sb.WriteString(t.head())
	for _, a := range t.Args {
		sb.WriteByte(' ')
		s := a.String()
		if len(s) > 400 {
			s = s[:400] + "..."
		}
		sb.WriteString(s)
	}
	sb.WriteByte(')')
	return sb.String()
}

// Popcount helper used by harness intrinsics (number of set bits of a bv).
func (c *Ctx) Popcount(a *Term) *Term {
	if a.IsConst() {
		return c.Const(a.Sort, uint64(bits.OnesCount64(a.Val)))
	}
	sum := c.Const(a.Sort, 0)
	for i := 0; i < a.Sort.W; i++ {
		sum = c.Bin(OAdd, sum, c.ZExt(c.Extract(a, i, i), a.Sort.W))
	}
	return sum
}
