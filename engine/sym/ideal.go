// ideal.go: idealised cryptography (DESIGN.md section 4.6). Every primitive
// is a free function symbol: outputs are fresh "ideal blocks" of bytes,
// equality between ideal values is structural (collision-freedom, DH
// commutativity, Unmask(Mask(e,pw),pw')=e <=> pw=pw'), ChaCha20-Poly1305 is an
// ideal AEAD with atomic ciphertexts: Open succeeds iff its operands are -
// provably, as a quantifier-free condition over the functional content of the
// ciphertext buffer - exactly a logged Seal with equal key, nonce and
// associated data. What is decided on top of this model is the real code's
// control and data flow around the primitives.
package sym

import (
	"go/token"
	"fmt"
	"go/types"
	"strconv"
	"strings"
)

type idealApp struct {
	id     int
	alg    string
	inputs [][]*Term // argument byte strings (concrete lengths)
	outLen int
}

type sealEntry struct {
	id    int
	key   []*Term
	nonce []*Term
	ad    []*Term
	// plaintext snapshot
	ptDense []*Term    // concrete length
	ptSym   symContent // symbolic length: content + offset + length
	ptOff   *Term
	ptLen   *Term
	name    string // ciphertext stream name
	by      string
}

type privObj struct {
	id   *Term // BV64 identity
	pub  *pubObj
	name string
	// negOf: this key is n - negOf (its public key is the negated point:
	// same x coordinate, other parity byte)
	negOf *privObj
}

type pubObj struct {
	id   *Term // BV64 point identity
	priv *privObj
	// masked ephemeral: Mask(inner, pw)
	inner *pubObj
	pw    []*Term
	gen   *pubObj // generator the mask was formed with
	// a pure multiple s*G' of a generator (what a party that knows the
	// passphrase can compute): scaledGen = G', scaledPw = s
	scaledGen *pubObj
	scaledPw  []*Term
	ok    *Term // validity of a parsed point (nil = valid)
	ser   bool  // SerializeCompressed was called (bytes may be on the wire)
}

type idealState struct {
	apps    []*idealApp
	appMemo map[string]*idealApp
	seals   []*sealEntry
	privs   []*privObj
	pubs    []*pubObj
	masked  []*pubObj
	fresh   int
	// abstract group model (ideal_group.go)
	jac     map[*Value]jacRef
	scalars map[*Value][]*Term
	// operations log for provenance / freshness assertions
	nonceUse []nonceUse
	// every Seal call (also those that repeat an earlier one): key and nonce
	sealCalls []sealCall
}

type sealCall struct {
	key, nonce []*Term
}

type nonceUse struct {
	key   []*Term
	nonce *Term
	enc   bool
}

func (ex *Exec) idl() *idealState {
	if ex.ideal == nil {
		ex.ideal = &idealState{appMemo: map[string]*idealApp{}}
	}
	return ex.ideal
}

// ---------------------------------------------------------------------------
// byte strings

// sliceTerms returns the bytes of a slice of concrete length.
func (ex *Exec) sliceTerms(v Value) []*Term {
	switch s := v.(type) {
	case Slice:
		if s.Arr == nil {
			return nil
		}
		n, ok := ex.constOf(s.Len)
		if !ok {
			// a length the path condition confines to a few values (a buffer
			// sized from a wire field that was then filled completely): one
			// path per value; anything wider stays unsupported
			n = ex.concretizeN(s.Len, "length of a byte string given to an ideal primitive", 80)
		}
		out := make([]*Term, n)
		for i := int64(0); i < n; i++ {
			out[i] = ex.loadElem(s.Arr, ex.C.Bin(OAdd, s.Off, ex.i64(i))).(*Term)
		}
		return out
	case Array:
		out := make([]*Term, len(s))
		for i := range s {
			out[i] = s[i].(*Term)
		}
		return out
	case string:
		out := make([]*Term, len(s))
		for i := 0; i < len(s); i++ {
			out[i] = ex.C.Const(BV(8), uint64(s[i]))
		}
		return out
	case nil:
		return nil
	}
	panic(unsupported("sliceTerms of %T", v))
}

func (ex *Exec) termsSlice(ts []*Term) Slice {
	a := ex.newDense(types.Typ[types.Uint8], len(ts))
	for i, t := range ts {
		a.Dense[i] = t
	}
	return Slice{Arr: a, Off: ex.i64(0), Len: ex.i64(int64(len(ts))), Cap: ex.i64(int64(len(ts)))}
}

func termsArray(ts []*Term) Array {
	a := make(Array, len(ts))
	for i, t := range ts {
		a[i] = t
	}
	return a
}

func keyOf(parts ...[]*Term) string {
	var sb strings.Builder
	for _, p := range parts {
		sb.WriteByte('[')
		for _, t := range p {
			sb.WriteString(strconv.Itoa(t.ID))
			sb.WriteByte(',')
		}
		sb.WriteByte(']')
	}
	return sb.String()
}

// app returns the (memoised) application of alg to inputs.
func (ex *Exec) app(alg string, outLen int, inputs ...[]*Term) *idealApp {
	st := ex.idl()
	k := alg + "|" + keyOf(inputs...)
	if a, ok := st.appMemo[k]; ok {
		return a
	}
	a := &idealApp{id: len(st.apps), alg: alg, inputs: inputs, outLen: outLen}
	st.apps = append(st.apps, a)
	st.appMemo[k] = a
	return a
}

func (a *idealApp) uf() string { return fmt.Sprintf("%s!%d", a.alg, a.id) }

func (ex *Exec) appBytes(a *idealApp, off, n int) []*Term {
	out := make([]*Term, n)
	for i := 0; i < n; i++ {
		out[i] = ex.C.UF(a.uf(), BV(8), ex.i64(int64(off+i)))
	}
	return out
}

// blockOf recognises ts[p:] as starting with bytes of an ideal application:
// returns the application and the offset of the first byte.
func (ex *Exec) idealByte(t *Term) (*idealApp, int, bool) {
	if t.Op != OUF || len(t.Args) != 1 || !t.Args[0].IsConst() {
		return nil, 0, false
	}
	i := strings.LastIndexByte(t.Name, '!')
	if i < 0 {
		return nil, 0, false
	}
	id, err := strconv.Atoi(t.Name[i+1:])
	if err != nil {
		return nil, 0, false
	}
	st := ex.idl()
	if id < 0 || id >= len(st.apps) || st.apps[id].uf() != t.Name {
		return nil, 0, false
	}
	return st.apps[id], int(t.Args[0].Val), true
}

// eqBytes: structural equality of two byte strings of equal concrete length.
func (ex *Exec) eqBytes(a, b []*Term) *Term {
	c := ex.C
	if len(a) != len(b) {
		return c.False()
	}
	res := c.True()
	for p := 0; p < len(a); {
		if a[p] == b[p] {
			p++
			continue
		}
		if ra, rb := ex.resolveView(a[p]), ex.resolveView(b[p]); ra != a[p] || rb != b[p] {
			_, _, aok := ex.idealByte(ra)
			_, _, bok := ex.idealByte(rb)
			switch {
			case bok && !aok:
				res = c.And(res, ex.idealEqByte(ra, rb))
			case aok && !bok:
				res = c.And(res, ex.idealEqByte(rb, ra))
			default:
				res = c.And(res, c.Eq(ra, rb))
			}
			p++
			if res.IsFalse() {
				return res
			}
			continue
		}
		// encodings of points: ser(P,i) = ser(Q,i) iff P = Q (the encoding is injective)
		if a[p].Op == OUF && b[p].Op == OUF && a[p].Name == "ser" && b[p].Name == "ser" && a[p].Args[1] == b[p].Args[1] {
			res = c.And(res, c.Eq(a[p].Args[0], b[p].Args[0]))
			p++
			if res.IsFalse() {
				return res
			}
			continue
		}
		aa, ao, aok := ex.idealByte(a[p])
		ba, bo, bok := ex.idealByte(b[p])
		switch {
		case aok && bok:
			if aa == ba {
				// same application, different offset: ideal bytes are independent
				return c.False()
			}
			if aa.alg != ba.alg || ao != bo {
				return c.False()
			}
			// compare the maximal common run structurally
			run := 1
			for p+run < len(a) {
				xa, xo, xok := ex.idealByte(a[p+run])
				ya, yo, yok := ex.idealByte(b[p+run])
				if !xok || !yok || xa != aa || ya != ba || xo != ao+run || yo != bo+run {
					break
				}
				run++
			}
			res = c.And(res, ex.eqApp(aa, ba))
			p += run
		case aok || bok:
			// an ideal byte against a non-ideal term: only constants are excluded
			// outright (an ideal output is never a fixed public value)
			other := b[p]
			if bok {
				other = a[p]
			}
			if other.IsConst() {
				return c.False()
			}
			res = c.And(res, c.Eq(a[p], b[p]))
			p++
		default:
			res = c.And(res, c.Eq(a[p], b[p]))
			p++
		}
		if res.IsFalse() {
			return res
		}
	}
	return res
}

func (ex *Exec) eqApp(a, b *idealApp) *Term {
	if a == b {
		return ex.C.True()
	}
	if a.alg != b.alg || len(a.inputs) != len(b.inputs) {
		return ex.C.False()
	}
	switch a.alg {
	case "dh":
		// inputs: [pointId bytes(8)] [privId bytes(8)] as 64-bit terms wrapped
		return ex.eqDH(a, b)
	case "ct":
		return ex.C.False() // distinct Seal operations (memoised on inputs)
	}
	res := ex.C.True()
	for i := range a.inputs {
		res = ex.C.And(res, ex.eqBytes(a.inputs[i], b.inputs[i]))
		if res.IsFalse() {
			return res
		}
	}
	return res
}

// ---------------------------------------------------------------------------
// keys

func (ex *Exec) newPriv(name string, id *Term) *privObj {
	st := ex.idl()
	if id == nil {
		st.fresh++
		id = ex.C.Var(fmt.Sprintf("priv!%d", st.fresh), BV(64))
		// freshly generated keys are distinct from every key seen so far
		for _, p := range st.privs {
			ex.addPC(ex.C.Not(ex.C.Eq(id, p.id)))
		}
	}
	// Pub is injective
	for _, p := range st.privs {
		ex.addPC(ex.C.Implies(ex.C.Eq(ex.C.UF("Pub", BV(64), id), ex.C.UF("Pub", BV(64), p.id)), ex.C.Eq(id, p.id)))
	}
	p := &privObj{id: id, name: name}
	st.privs = append(st.privs, p)
	return p
}

func (ex *Exec) pubOf(p *privObj) *pubObj {
	if p.pub == nil {
		p.pub = &pubObj{id: ex.C.UF("Pub", BV(64), p.id), priv: p}
		ex.idl().pubs = append(ex.idl().pubs, p.pub)
	}
	return p.pub
}

func (ex *Exec) pubPtr(p *pubObj) Value  { return Ptr{Tag: p} }
func (ex *Exec) privPtr(p *privObj) Value { return Ptr{Tag: p} }

func (ex *Exec) asPub(v Value) *pubObj {
	if o, ok := v.(*Opaque); ok && o.Kind == "deref" {
		pk, _ := o.Data.(*pubObj)
		return pk
	}
	p, ok := v.(Ptr)
	if !ok || p.Tag == nil {
		return nil
	}
	pk, _ := p.Tag.(*pubObj)
	return pk
}

func (ex *Exec) asPriv(v Value) *privObj {
	p, ok := v.(Ptr)
	if !ok || p.Tag == nil {
		return nil
	}
	pk, _ := p.Tag.(*privObj)
	return pk
}

// eqPoint: equality of two points.
func (ex *Exec) eqPoint(a, b *pubObj) *Term {
	if a == b {
		return ex.C.True()
	}
	if a.priv != nil && b.priv != nil {
		return ex.C.Eq(a.priv.id, b.priv.id) // Pub is injective
	}
	return ex.C.Eq(a.id, b.id)
}

// serBytes: the 33-byte compressed encoding of a point: ser(id, i).
func (ex *Exec) serBytes(p *pubObj) []*Term {
	p.ser = true
	out := make([]*Term, 33)
	id := p.id
	if p.priv != nil && p.priv.negOf != nil {
		// -P: the x coordinate (bytes 1..32) is that of P, the parity byte
		// (0x02 / 0x03) is the other one
		id = ex.pubOf(p.priv.negOf).id
	}
	for i := range out {
		out[i] = ex.C.UF("ser", BV(8), id, ex.i64(int64(i)))
	}
	if id != p.id {
		out[0] = ex.C.Bin(OXor, out[0], ex.C.Const(BV(8), 1))
	}
	return out
}

// parsePub models ParsePubKey on 33 bytes.
func (ex *Exec) parsePub(b []*Term) (*pubObj, *Term) {
	c := ex.C
	st := ex.idl()
	if len(b) != 33 {
		return nil, c.False()
	}
	// honest bytes: exactly ser(id, 0..32) of a known point
	if b[0].Op == OUF && b[0].Name == "ser" {
		id := b[0].Args[0]
		all := true
		for i, t := range b {
			if t.Op != OUF || t.Name != "ser" || t.Args[0] != id || !t.Args[1].IsConst() || int(t.Args[1].Val) != i {
				all = false
				break
			}
		}
		if all {
			for _, p := range st.pubs {
				if p.id == id {
					return p, c.True()
				}
			}
		}
	}
	allConst := true
	for _, t := range b {
		if !t.IsConst() {
			allConst = false
		}
	}
	st.fresh++
	q := &pubObj{}
	if allConst {
		// a fixed public point (e.g. the SPAKE2 generator): identity from its bytes
		var h uint64 = 1469598103934665603
		for _, t := range b {
			h = (h ^ t.Val) * 1099511628211
		}
		q.id = c.Const(BV(64), h|1<<63)
		st.pubs = append(st.pubs, q)
		return q, c.True()
	}
	q.id = c.Var(fmt.Sprintf("pt!%d", st.fresh), BV(64))
	q.ok = c.Var(fmt.Sprintf("ptok!%d", st.fresh), BoolSort)
	// relation to every point whose encoding may be on the wire
	for _, p := range st.pubs {
		if !p.ser {
			continue
		}
		same := c.True()
		sb := ex.serBytes(p)
		for i := range b {
			same = c.And(same, c.Eq(b[i], sb[i]))
		}
		ex.addPC(c.Implies(same, c.And(q.ok, c.Eq(q.id, p.id))))
		ex.addPC(c.Implies(c.And(q.ok, c.Eq(q.id, p.id)), same))
	}
	// a valid point re-encodes to the bytes it was parsed from
	qs := ex.serBytes(q)
	for i := range b {
		ex.addPC(c.Implies(q.ok, c.Eq(qs[i], b[i])))
	}
	st.pubs = append(st.pubs, q)
	return q, q.ok
}

func term64Bytes(ex *Exec, t *Term) []*Term {
	out := make([]*Term, 8)
	for i := 0; i < 8; i++ {
		out[i] = ex.C.Extract(t, 8*i+7, 8*i)
	}
	return out
}

// dh: the hashed ECDH secret (32 bytes) of pub and priv.
func (ex *Exec) dh(pub *pubObj, priv *privObj) []*Term {
	var a *idealApp
	if pub.priv != nil {
		x, y := pub.priv.id, priv.id
		if x.ID > y.ID {
			x, y = y, x
		}
		a = ex.app("dh", 32, []*Term{x}, []*Term{y}, nil)
	} else {
		a = ex.app("dh", 32, []*Term{pub.id}, []*Term{priv.id}, []*Term{ex.C.True()})
	}
	return ex.appBytes(a, 0, 32)
}

// eqDH: DH(x,y) = DH(x',y') iff the unordered pairs of private keys agree;
// for a point q of unknown discrete log: DH(q,b) = DH(a,b') iff q = Pub(a) and
// b = b' (or symmetric).
func (ex *Exec) eqDH(a, b *idealApp) *Term {
	c := ex.C
	aq, bq := len(a.inputs[2]) == 1, len(b.inputs[2]) == 1
	a0, a1 := a.inputs[0][0], a.inputs[1][0]
	b0, b1 := b.inputs[0][0], b.inputs[1][0]
	pubT := func(priv *Term) *Term { return c.UF("Pub", BV(64), priv) }
	switch {
	case !aq && !bq:
		return c.Or(c.And(c.Eq(a0, b0), c.Eq(a1, b1)), c.And(c.Eq(a0, b1), c.Eq(a1, b0)))
	case aq && !bq:
		return c.Or(c.And(c.Eq(a0, pubT(b0)), c.Eq(a1, b1)), c.And(c.Eq(a0, pubT(b1)), c.Eq(a1, b0)))
	case !aq && bq:
		return ex.eqDH(b, a)
	default:
		// two unknown points: equal secrets iff same point and same key (the
		// cross case Pub(a1)=b0 & Pub(b1)=a0 is covered when either point is
		// later identified with a known key)
		return c.Or(c.And(c.Eq(a0, b0), c.Eq(a1, b1)), c.And(c.Eq(a0, pubT(b1)), c.Eq(b0, pubT(a1))))
	}
}

// ---------------------------------------------------------------------------
// AEAD

// nonceReuse: some two Seal calls so far used the same key and nonce.
func (ex *Exec) nonceReuse() *Term {
	st := ex.idl()
	r := ex.C.False()
	for i := range st.sealCalls {
		for j := i + 1; j < len(st.sealCalls); j++ {
			a, b := st.sealCalls[i], st.sealCalls[j]
			m := ex.eqBytes(a.key, b.key)
			if m.IsFalse() {
				continue
			}
			m = ex.C.And(m, ex.eqBytes(a.nonce, b.nonce))
			if m.IsFalse() {
				continue
			}
			r = ex.C.Or(r, m)
		}
	}
	return r
}

func (ex *Exec) errAuth() Value {
	return ex.newError("chacha20poly1305: message authentication failed")
}

func (ex *Exec) aeadSeal(key []*Term, dst Value, nonce, pt, ad Value, who string) Value {
	st := ex.idl()
	c := ex.C
	if d, ok := dst.(Slice); ok && d.Arr != nil {
		if k, okc := ex.constOf(d.Len); !okc || k != 0 {
			panic(unsupported("Seal with a non-empty destination prefix"))
		}
	}
	nt := ex.sliceTerms(nonce)
	adt := ex.sliceTerms(ad)
	st.sealCalls = append(st.sealCalls, sealCall{key: key, nonce: nt})
	e := &sealEntry{id: len(st.seals), key: key, nonce: nt, ad: adt, by: who}
	ps, _ := pt.(Slice)
	var n int64 = -1
	if ps.Arr == nil {
		n = 0
	} else if k, ok := ex.constOf(ps.Len); ok {
		n = k
	}
	if n >= 0 && (n <= ex.MaxDense || ps.Arr == nil || ps.Arr.isDense()) {
		e.ptDense = ex.sliceTerms(pt)
		// deterministic: same inputs, same ciphertext
		a := ex.app("ct", int(n)+16, key, nt, adt, e.ptDense)
		e.name = a.uf()
		for _, old := range st.seals {
			if old.name == e.name {
				e = old
				break
			}
		}
		if e.id == len(st.seals) {
			st.seals = append(st.seals, e)
		}
		return ex.intoDst(dst, ex.termsSlice(ex.appBytes(a, 0, int(n)+16)))
	}
	// symbolic length: functional ciphertext stream
	st.fresh++
	a := ex.app("ct", -1, key, nt, adt, []*Term{c.Const(BV(64), uint64(st.fresh))})
	e.name = a.uf()
	e.ptSym = ps.Arr.Content
	if ps.Arr.isDense() {
		panic(unsupported("Seal of a dense buffer with symbolic length"))
	}
	e.ptOff, e.ptLen = ps.Off, ps.Len
	st.seals = append(st.seals, e)
	ln := c.Bin(OAdd, ps.Len, ex.i64(16))
	arr := ex.newSym(types.Typ[types.Uint8], ln, symBase{name: e.name})
	c.UF(e.name, BV(8), ex.i64(0))
	return ex.intoDst(dst, Slice{Arr: arr, Off: ex.i64(0), Len: ln, Cap: ln})
}

// intoDst gives Seal/Open the aliasing behaviour of the real AEAD, which
// appends its output to dst: a non-nil (empty) dst whose capacity suffices
// receives the output in its own backing array - Seal(plaintext[:0], ...,
// plaintext, ...) overwrites the plaintext the caller still holds.
func (ex *Exec) intoDst(dst Value, res Slice) Slice {
	d, ok := dst.(Slice)
	if !ok || d.Arr == nil || res.Arr == nil {
		return res
	}
	if k, okc := ex.constOf(d.Len); !okc || k != 0 {
		panic(unsupported("AEAD with a non-empty destination prefix"))
	}
	rl := res.lenOr0(ex)
	fits := ex.C.Cmp(OSle, rl, d.capOr0(ex))
	if !ex.branch(fits, token.NoPos) {
		return res
	}
	ex.copyElems(d.Arr, d.Off, res.Arr, res.Off, rl)
	return Slice{Arr: d.Arr, Off: d.Off, Len: rl, Cap: d.Cap}
}

// aeadOpen: returns (plaintext slice, error).
func (ex *Exec) aeadOpen(key []*Term, dst Value, nonce, ct, ad Value, cs *callSite) Value {
	st := ex.idl()
	c := ex.C
	nt := ex.sliceTerms(nonce)
	adt := ex.sliceTerms(ad)
	cts, _ := ct.(Slice)
	ctLen := cts.lenOr0(ex)
	tooShort := c.Cmp(OSlt, ctLen, ex.i64(16))
	if ex.branch(tooShort, cs.pos) {
		return Tuple{Slice{}, ex.errAuth()}
	}
	for _, e := range st.seals {
		var elen *Term
		if e.ptDense != nil || e.ptSym == nil {
			elen = ex.i64(int64(len(e.ptDense)) + 16)
		} else {
			elen = c.Bin(OAdd, e.ptLen, ex.i64(16))
		}
		m := c.Eq(ctLen, elen)
		if m.IsFalse() {
			continue
		}
		m = c.And(m, ex.eqBytes(key, e.key))
		if m.IsFalse() {
			continue
		}
		m = c.And(m, ex.eqBytes(nt, e.nonce))
		if m.IsFalse() {
			continue
		}
		m = c.And(m, ex.eqBytes(adt, e.ad))
		if m.IsFalse() {
			continue
		}
		m = c.And(m, ex.allEq(cts, e.name, elen))
		if m.IsFalse() {
			continue
		}
		if ex.branch(m, cs.pos) {
			ex.idl().nonceUse = append(ex.idl().nonceUse, nonceUse{key: key})
			if e.ptSym != nil {
				arr := ex.newSym(types.Typ[types.Uint8], e.ptLen, symZero{})
				arr.Content = &symCopy{prev: symZero{}, doff: ex.i64(0), src: e.ptSym, soff: e.ptOff, n: e.ptLen}
				return Tuple{ex.intoDst(dst, Slice{Arr: arr, Off: ex.i64(0), Len: e.ptLen, Cap: e.ptLen}), Iface{}}
			}
			if len(e.ptDense) == 0 {
				// Open returns a non-nil empty slice only if dst was non-nil; nil here
				return Tuple{Slice{}, Iface{}}
			}
			return Tuple{ex.intoDst(dst, ex.termsSlice(append([]*Term(nil), e.ptDense...))), Iface{}}
		}
	}
	return Tuple{Slice{}, ex.errAuth()}
}

// allEq: quantifier-free condition for "s[i] == name(i) for all i < n" where
// name is an ideal stream. F(x) := [content[x] == name(x+tshift)] is a
// piecewise-constant function of x (an ideal stream byte equals another ideal
// byte iff it is the same stream at the same index, so inside a piece the
// verdict does not depend on x); its pieces start at lo or at a breakpoint of
// the copy/store structure. Hence "for all x in [lo,hi)" is equivalent to F at
// lo and at every breakpoint that falls into [lo,hi): a conjunction of
// O(nodes) evaluations instead of a quantifier.
func (ex *Exec) allEq(s Slice, name string, n *Term) *Term {
	c := ex.C
	if s.Arr == nil {
		return c.Eq(n, ex.i64(0))
	}
	lo := s.Off
	hi := c.Bin(OAdd, s.Off, n)
	tshift := c.Un(ONeg, s.Off)
	if s.Arr.isDense() {
		if off, ok := ex.constOf(s.Off); ok {
			if k, okn := ex.constOf(n); okn && off >= 0 && off+k <= int64(len(s.Arr.Dense)) && k >= 2 {
				if nm, base, oku := uniformStream(s.Arr.Dense[off : off+k]); oku {
					if v := ex.viewOf(nm); v != nil {
						arr := &ArrObj{Elem: s.Arr.Elem, N: c.Bin(OAdd, v.off, ex.i64(base+k)), Content: v.content}
						vs := Slice{Arr: arr, Off: c.Bin(OAdd, v.off, ex.i64(base)), Len: n, Cap: n}
						return ex.allEq(vs, name, n)
					}
				}
			}
		}
		return ex.holdsDense(s.Arr.Dense, lo, hi, tshift, name)
	}
	pts := []*Term{lo}
	seen := map[int]bool{lo.ID: true}
	ex.breakpoints(s.Arr.Content, ex.i64(0), &pts, seen, 0)
	res := c.True()
	for _, t := range pts {
		in := c.And(c.Cmp(OSle, lo, t), c.Cmp(OSlt, t, hi))
		if in.IsFalse() {
			continue
		}
		res = c.And(res, c.Implies(in, ex.eqAt(s.Arr.Content, t, tshift, name, 0)))
		if res.IsFalse() {
			return res
		}
	}
	return res
}

// breakpoints collects, in the coordinates of the top-level array (x_top =
// x_level + delta), the indices at which the source of content can change.
func (ex *Exec) breakpoints(ct symContent, delta *Term, out *[]*Term, seen map[int]bool, depth int) {
	c := ex.C
	if depth > 400 {
		panic(unsupported("content tree too deep in ciphertext comparison"))
	}
	add := func(t *Term) {
		t = c.Bin(OAdd, t, delta)
		if !seen[t.ID] {
			seen[t.ID] = true
			*out = append(*out, t)
		}
	}
	switch n := ct.(type) {
	case symBase, symZero:
	case *symStore:
		add(n.idx)
		add(c.Bin(OAdd, n.idx, ex.i64(1)))
		ex.breakpoints(n.prev, delta, out, seen, depth+1)
	case *symCopy:
		add(n.doff)
		add(c.Bin(OAdd, n.doff, n.n))
		sd := c.Bin(OAdd, delta, c.Bin(OSub, n.doff, n.soff))
		if n.srcDense != nil {
			for k := range n.srcDense {
				t := c.Bin(OAdd, ex.i64(int64(k)), sd)
				if !seen[t.ID] {
					seen[t.ID] = true
					*out = append(*out, t)
				}
			}
		} else {
			ex.breakpoints(n.src, sd, out, seen, depth+1)
		}
		ex.breakpoints(n.prev, delta, out, seen, depth+1)
	}
}

// eqAt: [content[x] == name(x + tshift)] as a Bool term.
func (ex *Exec) eqAt(ct symContent, x, tshift *Term, name string, depth int) *Term {
	c := ex.C
	switch n := ct.(type) {
	case symBase:
		if n.name == name {
			return c.Eq(tshift, ex.i64(0))
		}
		return c.False()
	case symZero:
		return c.False()
	case *symStore:
		rest := ex.eqAt(n.prev, x, tshift, name, depth+1)
		want := c.UF(name, BV(8), c.Bin(OAdd, x, tshift))
		return c.Ite(c.Eq(x, n.idx), ex.idealEqByte(n.val.(*Term), want), rest)
	case *symCopy:
		rest := ex.eqAt(n.prev, x, tshift, name, depth+1)
		in := c.And(c.Cmp(OUle, n.doff, x), c.Cmp(OUlt, c.Bin(OSub, x, n.doff), n.n))
		if in.IsFalse() {
			return rest
		}
		sx := c.Bin(OAdd, c.Bin(OSub, x, n.doff), n.soff)
		sts := c.Bin(OAdd, c.Bin(OSub, n.doff, n.soff), tshift)
		var inside *Term
		if n.srcDense != nil {
			inside = c.False()
			for k := len(n.srcDense) - 1; k >= 0; k-- {
				kt := ex.i64(int64(k))
				want := c.UF(name, BV(8), c.Bin(OAdd, kt, sts))
				inside = c.Ite(c.Eq(sx, kt), ex.idealEqByte(n.srcDense[k].(*Term), want), inside)
			}
		} else {
			inside = ex.eqAt(n.src, sx, sts, name, depth+1)
		}
		return c.Ite(in, inside, rest)
	}
	panic(fmt.Sprintf("eqAt: %T", ct))
}

func (ex *Exec) emptyIv(lo, hi *Term) *Term { return ex.C.Cmp(OSle, hi, lo) }

func (ex *Exec) holdsDense(cells []Value, lo, hi, tshift *Term, name string) *Term {
	c := ex.C
	res := c.True()
	for k := range cells {
		kt := ex.i64(int64(k))
		in := c.And(c.Cmp(OSle, lo, kt), c.Cmp(OSlt, kt, hi))
		if in.IsFalse() {
			continue
		}
		want := c.UF(name, BV(8), c.Bin(OAdd, kt, tshift))
		res = c.And(res, c.Implies(in, ex.idealEqByte(cells[k].(*Term), want)))
		if res.IsFalse() {
			return res
		}
	}
	// the interval must lie inside the array
	res = c.And(res, c.Or(ex.emptyIv(lo, hi), c.Cmp(OSle, hi, ex.i64(int64(len(cells))))))
	return res
}

// idealEqByte: equality of a byte term with a byte of an ideal stream, decided
// structurally so that no uninterpreted-function value reasoning reaches the
// solver: the same stream at the same index is equal, anything else that is
// ideal, constant or an invented (junk) stream byte is not; ite and xor are
// pushed through (a flipped ideal byte equals an ideal byte only if the mask
// is zero and the unflipped byte is that byte).
func (ex *Exec) idealEqByte(have, want *Term) *Term {
	c := ex.C
	if have == want {
		return c.True()
	}
	have = ex.resolveView(have)
	switch have.Op {
	case OConst:
		return c.False()
	case OUF:
		if len(have.Args) == 1 {
			if have.Name != want.Name {
				return c.False()
			}
			return c.Eq(have.Args[0], want.Args[0])
		}
	case OIte:
		return c.Ite(have.Args[0], ex.idealEqByte(have.Args[1], want), ex.idealEqByte(have.Args[2], want))
	case OXor:
		a, b := have.Args[0], have.Args[1]
		if isStreamish(a) {
			return c.And(ex.idealEqByte(a, want), c.Eq(b, c.Const(b.Sort, 0)))
		}
		if isStreamish(b) {
			return c.And(ex.idealEqByte(b, want), c.Eq(a, c.Const(a.Sort, 0)))
		}
	}
	return c.Eq(have, want)
}

// isStreamish: a stream byte or an ite/xor structure over stream bytes.
func isStreamish(t *Term) bool {
	switch t.Op {
	case OUF:
		return len(t.Args) == 1
	case OIte:
		return isStreamish(t.Args[1]) || isStreamish(t.Args[2])
	case OXor:
		return isStreamish(t.Args[0]) || isStreamish(t.Args[1])
	}
	return false
}
