// symarr.go: array objects. Dense arrays have a concrete capacity; functional
// arrays have a symbolic length and a content given as a tree of
// base/zero/store/copy nodes that is resolved lazily into ite terms when read.
package sym

import (
	"fmt"
	"go/types"
)

type symContent interface{}

type symBase struct{ name string } // uninterpreted stream: name(i) : BV8 (or elem sort)
type symZero struct{}
type symStore struct {
	prev symContent
	idx  *Term
	val  Value
}
type symCopy struct {
	prev      symContent
	doff      *Term
	src       symContent
	srcDense  []Value // snapshot of a dense source (copied)
	soff, n   *Term
	srcIsZero bool
}

// SymStr is a symbolic string: either element Idx of a concrete table of
// distinct strings, or (Bytes != nil) a string of concrete length whose bytes
// are terms (string(b) of a buffer with symbolic contents, e.g. a map key).
type SymStr struct {
	Table []string
	Idx   *Term // 64-bit, assumed < len(Table)
	index map[string]int
	Bytes []*Term
}

func (ex *Exec) symStrEq(s *SymStr, c string) *Term {
	if s.Bytes != nil || (s.Table == nil && s.Idx == nil) {
		if len(s.Bytes) != len(c) {
			return ex.C.False()
		}
		r := ex.C.True()
		for i := range s.Bytes {
			r = ex.C.And(r, ex.C.Eq(s.Bytes[i], ex.C.Const(BV(8), uint64(c[i]))))
		}
		return r
	}
	if s.index == nil {
		s.index = map[string]int{}
		for i, w := range s.Table {
			s.index[w] = i
		}
	}
	if i, ok := s.index[c]; ok {
		return ex.C.Eq(s.Idx, ex.i64(int64(i)))
	}
	return ex.C.False()
}

func (ex *Exec) symStrEq2(a, b *SymStr) *Term {
	if a.Table == nil && b.Table == nil {
		if len(a.Bytes) != len(b.Bytes) {
			return ex.C.False()
		}
		return ex.eqBytes(a.Bytes, b.Bytes)
	}
	if len(a.Table) > 0 && len(b.Table) > 0 && &a.Table[0] == &b.Table[0] && len(a.Table) == len(b.Table) {
		return ex.C.Eq(a.Idx, b.Idx)
	}
	panic("symStrEq2: different tables")
}

func (ex *Exec) newDense(elem types.Type, n int) *ArrObj {
	a := &ArrObj{Elem: elem, Dense: make([]Value, n)}
	ex.arrSeq++
	a.id = ex.arrSeq
	if n > 0 {
		z := ex.zero(elem)
		if _, scalar := z.(*Term); scalar {
			for i := range a.Dense {
				a.Dense[i] = z
			}
		} else {
			for i := range a.Dense {
				a.Dense[i] = ex.zero(elem)
			}
		}
	}
	return a
}

// arrOfArray returns the array object aliasing the storage of a Go array value.
func (ex *Exec) arrOfArray(a Array, elem types.Type) *ArrObj {
	if len(a) == 0 {
		return &ArrObj{Elem: elem, Dense: []Value{}}
	}
	key := &a[0]
	if o, ok := ex.arrAlias[key]; ok {
		return o
	}
	ex.arrSeq++
	o := &ArrObj{Elem: elem, Dense: []Value(a), id: ex.arrSeq}
	ex.arrAlias[key] = o
	return o
}

func (ex *Exec) newSym(elem types.Type, n *Term, content symContent) *ArrObj {
	ex.arrSeq++
	return &ArrObj{Elem: elem, N: n, Content: content, id: ex.arrSeq}
}

// bigArrayOf returns the functional array object held in an array-typed slot,
// if the array is represented that way.
func bigArrayOf(v Value) (*ArrObj, bool) {
	a, ok := v.(*ArrObj)
	if ok && a != nil {
		a.bigArray = true
		return a, true
	}
	return nil, false
}

func (a *ArrObj) isDense() bool { return a.Dense != nil }

func (ex *Exec) arrLen(a *ArrObj) *Term {
	if a.isDense() {
		return ex.i64(int64(len(a.Dense)))
	}
	return a.N
}

func (ex *Exec) elemSort(t types.Type) Sort {
	z := ex.zero(t)
	if tm, ok := z.(*Term); ok {
		return tm.Sort
	}
	panic(fmt.Sprintf("functional array of non-scalar element type %s", t))
}

// readContent resolves content[idx] into a term.
func (ex *Exec) readContent(elem types.Type, ct symContent, idx *Term) Value {
	c := ex.C
	switch n := ct.(type) {
	case symBase:
		return c.UF(n.name, ex.elemSort(elem), idx)
	case symZero:
		return ex.zero(elem)
	case *symStore:
		rest := ex.readContent(elem, n.prev, idx)
		m, ok := ex.merge(c.Eq(idx, n.idx), n.val, rest)
		if !ok {
			panic(unsupported("unmergeable element values in functional array read"))
		}
		return m
	case *symCopy:
		rest := ex.readContent(elem, n.prev, idx)
		in := c.And(c.Cmp(OUle, n.doff, idx), c.Cmp(OUlt, c.Bin(OSub, idx, n.doff), n.n))
		if in.IsFalse() {
			return rest
		}
		sidx := c.Bin(OAdd, c.Bin(OSub, idx, n.doff), n.soff)
		var sv Value
		if n.srcDense != nil {
			sv = ex.readDense(n.srcDense, sidx, elem)
		} else {
			sv = ex.readContent(elem, n.src, sidx)
		}
		m, ok := ex.merge(in, sv, rest)
		if !ok {
			panic(unsupported("unmergeable element values in functional array read"))
		}
		return m
	}
	panic(fmt.Sprintf("readContent: %T", ct))
}

// readDense reads cells[idx] for a possibly symbolic idx (ite chain); the
// caller has already established idx < len(cells).
func (ex *Exec) readDense(cells []Value, idx *Term, elem types.Type) Value {
	if k, ok := ex.constOf(idx); ok {
		if k < 0 || int(k) >= len(cells) {
			// out of the assumed range; value is irrelevant under the bounds check
			return ex.zero(elem)
		}
		return cells[k]
	}
	if len(cells) == 0 {
		return ex.zero(elem)
	}
	// a table of strings indexed symbolically: "element idx of the table"
	if _, isStr := cells[0].(string); isStr {
		table := make([]string, len(cells))
		for i, c := range cells {
			s, ok := c.(string)
			if !ok {
				panic(needConcretize{idx})
			}
			table[i] = s
		}
		key := &cells[0]
		if t, ok := ex.tables[key]; ok {
			table = t
		} else {
			if ex.tables == nil {
				ex.tables = map[*Value][]string{}
			}
			ex.tables[key] = table
		}
		return &SymStr{Table: table, Idx: idx}
	}
	// a run of consecutive bytes of one ideal stream is read as the stream itself
	if nm, base, ok := uniformStream(cells); ok {
		if v := ex.viewOf(nm); v != nil {
			return ex.readContent(v.elem, v.content, ex.C.Bin(OAdd, v.off, ex.C.Bin(OAdd, idx, ex.i64(base))))
		}
		return ex.C.UF(nm, BV(8), ex.C.Bin(OAdd, idx, ex.i64(base)))
	}
	var res Value = cells[len(cells)-1]
	for i := len(cells) - 2; i >= 0; i-- {
		m, ok := ex.merge(ex.C.Eq(idx, ex.i64(int64(i))), cells[i], res)
		if !ok {
			panic(needConcretize{idx})
		}
		res = m
	}
	return res
}

// needConcretize is raised when a symbolic index has to be enumerated.
type needConcretize struct{ t *Term }

// loadElem reads element idx of a (bounds already checked).
func (ex *Exec) loadElem(a *ArrObj, idx *Term) Value {
	if a.isDense() {
		return copyVal(ex.readDense(a.Dense, idx, a.Elem))
	}
	return ex.readContent(a.Elem, a.Content, idx)
}

// storeElem writes element idx of a (bounds already checked).
func (ex *Exec) storeElem(a *ArrObj, idx *Term, v Value) {
	if a.isDense() {
		if k, ok := ex.constOf(idx); ok {
			storeInto(&a.Dense[k], v)
			return
		}
		merged := make([]Value, len(a.Dense))
		for i := range a.Dense {
			m, ok := ex.merge(ex.C.Eq(idx, ex.i64(int64(i))), v, a.Dense[i])
			if !ok {
				panic(needConcretize{idx})
			}
			merged[i] = m
		}
		copy(a.Dense, merged)
		return
	}
	a.Content = &symStore{prev: a.Content, idx: idx, val: copyVal(v)}
}

// copyElems implements copy(dst[doff:doff+n], src[soff:soff+n]) on array
// objects; n may be symbolic. Overlapping copies within one object are
// handled through a snapshot of the source.
func (ex *Exec) copyElems(dst *ArrObj, doff *Term, src *ArrObj, soff *Term, n *Term) {
	c := ex.C
	if n.IsConst() && n.Val == 0 {
		return
	}
	if dst.isDense() {
		nk, nconst := constInt(n)
		dk, dconst := constInt(doff)
		sk, sconst := constInt(soff)
		if src.isDense() && nconst && dconst && sconst {
			tmp := make([]Value, nk)
			for i := int64(0); i < nk; i++ {
				tmp[i] = copyVal(src.Dense[sk+i])
			}
			for i := int64(0); i < nk; i++ {
				storeInto(&dst.Dense[dk+i], tmp[i])
			}
			return
		}
		// functional byte source: the cells become a lazy view of the source
		if !src.isDense() && dconst {
			if _, isByte := ex.zero(src.Elem).(*Term); isByte && ex.zero(src.Elem).(*Term).Sort == BV(8) {
				v := ex.newView(src.Content, soff, src.Elem)
				hiV := len(dst.Dense)
				if nconst {
					hiV = int(dk + nk)
				}
				for j := int(dk); j < hiV; j++ {
					i := ex.i64(int64(j) - dk)
					vt := c.UF(v.name, BV(8), i)
					if nconst {
						dst.Dense[j] = vt
					} else {
						m, _ := ex.merge(c.Cmp(OUlt, i, n), vt, dst.Dense[j])
						dst.Dense[j] = m
					}
				}
				return
			}
		}
		// general: every destination cell j gets ite(doff<=j<doff+n, src[j-doff+soff], old)
		var snapshot []Value
		if src.isDense() {
			snapshot = make([]Value, len(src.Dense))
			for i := range snapshot {
				snapshot[i] = copyVal(src.Dense[i])
			}
		}
		srcContent := src.Content
		lo, hi := 0, len(dst.Dense)
		if dconst {
			lo = int(dk)
			if nconst {
				hi = int(dk + nk)
			} else if src.isDense() && sconst {
				// n cannot exceed what the source holds
				if h := int(dk) + len(src.Dense) - int(sk); h < hi {
					hi = h
				}
			}
		}
		for j := lo; j < hi; j++ {
			jt := ex.i64(int64(j))
			in := c.And(c.Cmp(OUle, doff, jt), c.Cmp(OUlt, c.Bin(OSub, jt, doff), n))
			if in.IsFalse() {
				continue
			}
			sidx := c.Bin(OAdd, c.Bin(OSub, jt, doff), soff)
			var sv Value
			if snapshot != nil {
				sv = ex.readDense(snapshot, sidx, src.Elem)
			} else {
				sv = ex.readContent(src.Elem, srcContent, sidx)
			}
			m, ok := ex.merge(in, sv, dst.Dense[j])
			if !ok {
				panic(unsupported("copy of unmergeable elements with symbolic bounds"))
			}
			dst.Dense[j] = m
		}
		return
	}
	node := &symCopy{prev: dst.Content, doff: doff, soff: soff, n: n}
	if src.isDense() {
		if nm, base, ok := uniformStream(src.Dense); ok {
			if v := ex.viewOf(nm); v != nil {
				node.src = v.content
				node.soff = c.Bin(OAdd, v.off, c.Bin(OAdd, soff, ex.i64(base)))
			} else {
				node.src = symBase{name: nm}
				node.soff = c.Bin(OAdd, soff, ex.i64(base))
			}
			dst.Content = node
			return
		}
		node.srcDense = make([]Value, len(src.Dense))
		for i := range node.srcDense {
			node.srcDense[i] = copyVal(src.Dense[i])
		}
	} else {
		node.src = src.Content
	}
	dst.Content = node
}

type unsupportedErr struct{ msg string }

func unsupported(format string, args ...interface{}) unsupportedErr {
	return unsupportedErr{fmt.Sprintf(format, args...)}
}

// uniformStream: are the cells exactly name(base), name(base+1), ... of one
// uninterpreted byte stream (len >= 2)?
func uniformStream(cells []Value) (string, int64, bool) {
	if len(cells) < 2 {
		return "", 0, false
	}
	t0, ok := cells[0].(*Term)
	if !ok || t0.Op != OUF || len(t0.Args) != 1 || !t0.Args[0].IsConst() || t0.Sort.K != KBV || t0.Sort.W != 8 {
		return "", 0, false
	}
	base := int64(t0.Args[0].Val)
	for i, c := range cells {
		t, ok := c.(*Term)
		if !ok || t.Op != OUF || t.Name != t0.Name || len(t.Args) != 1 || !t.Args[0].IsConst() || int64(t.Args[0].Val) != base+int64(i) {
			return "", 0, false
		}
	}
	return t0.Name, base, true
}

// ---------------------------------------------------------------------------
// Views: bytes copied from a functional array into a dense array are not
// resolved eagerly (that would build one ite-tree per byte); the dense cells
// hold applications view!k(i) of a named snapshot (content, offset). They are
// re-rolled into the snapshot when copied on or compared as a block, and
// expanded by definition (view!k(i) = content[off+i]) only if they reach a
// solver query.
type viewDef struct {
	name    string
	content symContent
	off     *Term
	elem    types.Type
}

func (ex *Exec) newView(content symContent, off *Term, elem types.Type) *viewDef {
	ex.viewSeq++
	v := &viewDef{name: fmt.Sprintf("view!%d", ex.viewSeq), content: content, off: off, elem: elem}
	if ex.views == nil {
		ex.views = map[string]*viewDef{}
	}
	ex.views[v.name] = v
	return v
}

func (ex *Exec) viewOf(name string) *viewDef {
	if ex.views == nil {
		return nil
	}
	return ex.views[name]
}

// resolveView expands a view application into a read of its snapshot.
func (ex *Exec) resolveView(t *Term) *Term {
	if t.Op == OUF && len(t.Args) == 1 {
		if v := ex.viewOf(t.Name); v != nil {
			r := ex.readContent(v.elem, v.content, ex.C.Bin(OAdd, v.off, t.Args[0])).(*Term)
			return r
		}
	}
	return t
}
