// sched.go: goroutines, channels, select, timers and the virtual clock.
//
// Cooperative scheduler owned by the engine. Default policy: the running
// goroutine continues until it blocks; then the goroutine that became ready
// first runs (FIFO, like the Go run queue). Every scheduling point with more
// than one candidate and every select with more than one ready case is a
// choice point as long as the deviation budget (SchedBudget) is not used up.
// Time is discrete-event: when nothing is runnable the clock jumps to the
// earliest timer.
package sym

import (
	"fmt"
	"go/token"
	"go/types"
	"sort"

	"golang.org/x/tools/go/ssa"
)

type VC []int

type waitOp struct {
	ch   *Chan
	send bool
	val  Value // for send
	idx  int   // select case index (or 0)
}

type waitState struct {
	ops      []waitOp
	complete func(op waitOp, v Value, ok bool)
	since    int
}

type Timer struct {
	id       int
	ch       *Chan
	deadline int64
	period   int64
	active   bool
	fn       func() // callback timers (context deadlines, sleeps)
	what     string
}

func (ex *Exec) newChan(elem types.Type, cap *Term) *Chan {
	ex.chanSeq++
	return &Chan{id: ex.chanSeq, Cap: cap, ElemT: elem}
}

func (ex *Exec) enqueue(g *Goroutine) {
	for _, q := range ex.runq {
		if q == g {
			return
		}
	}
	ex.runq = append(ex.runq, g)
}

func (ex *Exec) makeReady(g *Goroutine) {
	g.status = gReady
	g.canRun = nil
	g.waitFor = ""
	ex.waits[g] = nil
	ex.enqueue(g)
}

// blockOnChan parks g until a counterpart completes one of ops.
func (ex *Exec) blockOnChan(g *Goroutine, ops []waitOp, what string, complete func(op waitOp, v Value, ok bool)) {
	g.status = gBlocked
	g.canRun = nil
	g.waitFor = what
	ex.blockSeq++
	ex.waits[g] = &waitState{ops: ops, complete: complete, since: ex.blockSeq}
}

// blockUntil parks g until pred() holds; the blocking instruction is retried.
func (ex *Exec) blockUntil(g *Goroutine, what string, pred func() bool) {
	g.status = gBlocked
	g.canRun = pred
	g.waitFor = what
}

// findWaiter returns the goroutine that has been blocked longest on the
// opposite operation of ch.
func (ex *Exec) findWaiter(ch *Chan, wantSend bool) (*Goroutine, waitOp) {
	var best *Goroutine
	var bop waitOp
	bs := 0
	for _, g := range ex.gs {
		w := ex.waits[g]
		if w == nil || g.status != gBlocked {
			continue
		}
		for _, op := range w.ops {
			if op.ch == ch && op.send == wantSend {
				if best == nil || w.since < bs {
					best, bop, bs = g, op, w.since
				}
				break
			}
		}
	}
	return best, bop
}

func (ex *Exec) capInt(ch *Chan) int64 {
	k, ok := constInt(ch.Cap)
	if !ok {
		// concretise the capacity (symbolic window sizes in sequential harnesses)
		k = ex.concretize(ch.Cap, "chan capacity")
		ch.Cap = ex.i64(k)
	}
	return k
}

func (ex *Exec) sendReady(ch *Chan) bool {
	if ch == nil {
		return false
	}
	if ch.closed {
		return true
	}
	if int64(len(ch.buf)) < ex.capInt(ch) {
		return true
	}
	w, _ := ex.findWaiter(ch, false)
	return w != nil
}

func (ex *Exec) recvReady(ch *Chan) bool {
	if ch == nil {
		return false
	}
	if len(ch.buf) > 0 || ch.closed {
		return true
	}
	w, _ := ex.findWaiter(ch, true)
	return w != nil
}

// doSend performs a send that is known to be ready.
func (ex *Exec) doSend(g *Goroutine, ch *Chan, v Value, pos token.Pos) {
	if ch.closed {
		ex.goPanic(g, ex.topFrame(g), "send on closed channel", pos)
	}
	if ex.RaceMode {
		ex.raceRelease(g, ch)
	}
	if len(ch.buf) == 0 {
		if w, op := ex.findWaiter(ch, false); w != nil {
			ws := ex.waits[w]
			if ex.RaceMode {
				ex.raceAcquire(w, ch)
				if ex.capInt(ch) == 0 {
					ex.raceRelease(w, ch)
					ex.raceAcquire(g, ch)
				}
			}
			ex.makeReady(w)
			ws.complete(op, copyVal(v), true)
			return
		}
	}
	ch.buf = append(ch.buf, copyVal(v))
}

// doRecv performs a receive that is known to be ready.
func (ex *Exec) doRecv(g *Goroutine, ch *Chan) (Value, bool) {
	if len(ch.buf) > 0 {
		v := ch.buf[0]
		ch.buf = ch.buf[1:]
		if ex.RaceMode {
			ex.raceAcquire(g, ch)
		}
		// a blocked sender can now move its value into the buffer
		if w, op := ex.findWaiter(ch, true); w != nil {
			ws := ex.waits[w]
			ch.buf = append(ch.buf, copyVal(op.val))
			if ex.RaceMode {
				ex.raceRelease(w, ch)
			}
			ex.makeReady(w)
			ws.complete(op, nil, true)
		}
		return v, true
	}
	if ch.closed {
		if ex.RaceMode {
			ex.raceAcquire(g, ch)
		}
		return ex.zero(ch.ElemT), false
	}
	w, op := ex.findWaiter(ch, true)
	if w == nil {
		panic("doRecv: not ready")
	}
	ws := ex.waits[w]
	if ex.RaceMode {
		ex.raceRelease(w, ch)
		ex.raceAcquire(g, ch)
		ex.raceRelease(g, ch)
		ex.raceAcquire(w, ch)
	}
	ex.makeReady(w)
	ws.complete(op, nil, true)
	return copyVal(op.val), true
}

func (ex *Exec) chanSend(g *Goroutine, ch *Chan, v Value, pos token.Pos) {
	if ch == nil {
		ex.blockUntil(g, "send on nil channel", func() bool { return false })
		return
	}
	if ex.sendReady(ch) {
		ex.doSend(g, ch, v, pos)
		return
	}
	fr := ex.topFrame(g)
	ex.blockOnChan(g, []waitOp{{ch: ch, send: true, val: v}}, fmt.Sprintf("send on chan#%d", ch.id), func(op waitOp, _ Value, ok bool) {
		if !ok { // channel was closed while blocked
			ex.goPanic(g, fr, "send on closed channel", pos)
		}
		fr.pc++
	})
}

func (ex *Exec) chanRecv(g *Goroutine, ch *Chan, pos token.Pos) (Value, *Term) {
	if ch == nil {
		ex.blockUntil(g, "receive on nil channel", func() bool { return false })
		return nil, nil
	}
	if ex.recvReady(ch) {
		v, ok := ex.doRecv(g, ch)
		return v, ex.C.Bool(ok)
	}
	fr := ex.topFrame(g)
	in := fr.block.Instrs[fr.pc].(*ssa.UnOp)
	ex.blockOnChan(g, []waitOp{{ch: ch}}, fmt.Sprintf("receive on chan#%d", ch.id), func(op waitOp, v Value, ok bool) {
		if !ok {
			v = ex.zero(ch.ElemT)
		}
		if in.CommaOk {
			ex.set(fr, in, Tuple{v, ex.C.Bool(ok)})
		} else {
			ex.set(fr, in, v)
		}
		fr.pc++
	})
	return nil, nil
}

func (ex *Exec) chanClose(g *Goroutine, ch *Chan, pos token.Pos) {
	if ch == nil {
		ex.goPanic(g, ex.topFrame(g), "close of nil channel", pos)
	}
	if ch.closed {
		ex.goPanic(g, ex.topFrame(g), "close of closed channel", pos)
	}
	ch.closed = true
	if ex.RaceMode {
		ex.raceRelease(g, ch)
	}
	// wake everybody blocked on ch
	for _, w := range ex.gs {
		ws := ex.waits[w]
		if ws == nil || w.status != gBlocked {
			continue
		}
		for _, op := range ws.ops {
			if op.ch == ch {
				if ex.RaceMode {
					ex.raceAcquire(w, ch)
				}
				ex.makeReady(w)
				ws.complete(op, nil, false)
				break
			}
		}
	}
}

// doSelect implements ssa.Select.
func (ex *Exec) doSelect(g *Goroutine, fr *Frame, in *ssa.Select) bool {
	type st struct {
		ch   *Chan
		send bool
		val  Value
	}
	states := make([]st, len(in.States))
	var ready []int
	for i, s := range in.States {
		ch, _ := ex.get(fr, s.Chan).(*Chan)
		states[i] = st{ch: ch, send: s.Dir == types.SendOnly}
		if states[i].send {
			states[i].val = ex.get(fr, s.Send)
			if ex.sendReady(ch) {
				ready = append(ready, i)
			}
		} else if ex.recvReady(ch) {
			ready = append(ready, i)
		}
	}
	result := func(idx int, recvOK bool, recvIdx int, rv Value) Tuple {
		tu := Tuple{ex.i64(int64(idx)), ex.C.Bool(recvOK)}
		for i, s := range in.States {
			if s.Dir == types.RecvOnly {
				var v Value
				if i == recvIdx {
					v = rv
				} else {
					v = ex.zero(s.Chan.Type().Underlying().(*types.Chan).Elem())
				}
				tu = append(tu, v)
			}
		}
		return tu
	}
	if len(ready) > 0 {
		pick := ready[0]
		if len(ready) > 1 {
			pick = ready[ex.schedChoice(len(ready), "select")]
		}
		s := states[pick]
		if s.send {
			ex.doSend(g, s.ch, s.val, in.Pos())
			ex.set(fr, in, result(pick, false, -1, nil))
		} else {
			v, ok := ex.doRecv(g, s.ch)
			ex.set(fr, in, result(pick, ok, pick, v))
		}
		fr.pc++
		return true
	}
	if !in.Blocking {
		ex.set(fr, in, result(-1, false, -1, nil))
		fr.pc++
		return false
	}
	var ops []waitOp
	for i, s := range states {
		if s.ch != nil {
			ops = append(ops, waitOp{ch: s.ch, send: s.send, val: s.val, idx: i})
		}
	}
	ex.blockOnChan(g, ops, "select", func(op waitOp, v Value, ok bool) {
		s := states[op.idx]
		if s.send {
			if !ok {
				ex.goPanic(g, fr, "send on closed channel (select)", in.Pos())
			}
			ex.set(fr, in, result(op.idx, false, -1, nil))
		} else {
			if !ok {
				v = ex.zero(s.ch.ElemT)
			}
			ex.set(fr, in, result(op.idx, ok, op.idx, v))
		}
		fr.pc++
	})
	return true
}

// ---------------------------------------------------------------------------
// timers and the clock

func (ex *Exec) now() int64 { return ex.Clock }

func (ex *Exec) newTimer(d int64, period int64, ch *Chan, fn func(), what string) *Timer {
	ex.timerSeq++
	t := &Timer{id: ex.timerSeq, ch: ch, period: period, fn: fn, what: what, active: true}
	t.deadline = satAdd(ex.Clock, d)
	if d < 0 {
		t.deadline = ex.Clock
	}
	if d <= 0 && period == 0 && fn == nil && ch != nil && len(ch.buf) == 0 {
		// Go >= 1.23: a channel timer that is already due is observed as
		// expired by the very next receive/select on its channel (the runtime
		// runs due channel timers when the channel is inspected)
		t.active = false
		ex.TimerFires++
		ch.buf = append(ch.buf, ex.timeValue(ex.Clock))
		return t
	}
	ex.timers = append(ex.timers, t)
	return t
}

func satAdd(a, b int64) int64 {
	s := a + b
	if b > 0 && s < a {
		return 1<<63 - 1
	}
	return s
}

const never = int64(1<<63 - 1)

const maxMainBlockedNs = int64(2 * 3600 * 1e9)

// advanceTime moves the clock to the earliest active timer and fires every
// timer due at that instant (in creation order). Returns false if no timer is
// pending (or only timers at "never").
func (ex *Exec) advanceTime() bool {
	var min int64 = never
	quiescing := len(ex.gs) > 0 && ex.gs[0].status == gBlocked && ex.gs[0].waitFor == "quiesce"
	for _, t := range ex.timers {
		if quiescing && t.period > 0 {
			// while the harness waits for quiescence, free-running tickers do not
			// count as pending work (a leaked ticker would never let it end)
			continue
		}
		if t.active && t.deadline < min {
			min = t.deadline
		}
	}
	if min == never {
		return false
	}
	if ex.Horizon > 0 && min > ex.Horizon {
		return false
	}
	if min > ex.Clock {
		ex.Clock = min
	}
	ex.fireDue()
	return true
}

func (ex *Exec) fireDue() {
	var due []*Timer
	for _, t := range ex.timers {
		if t.active && t.deadline <= ex.Clock {
			due = append(due, t)
		}
	}
	sort.Slice(due, func(i, j int) bool {
		if due[i].deadline != due[j].deadline {
			return due[i].deadline < due[j].deadline
		}
		return due[i].id < due[j].id
	})
	for _, t := range due {
		if !t.active {
			continue
		}
		if t.period > 0 {
			t.deadline = satAdd(t.deadline, t.period)
			if t.deadline <= ex.Clock { // missed ticks are dropped
				t.deadline = satAdd(ex.Clock, t.period)
			}
		} else {
			t.active = false
		}
		ex.TimerFires++
		if t.fn != nil {
			t.fn()
			continue
		}
		// non-blocking send of the current time (channel has capacity 1)
		if len(t.ch.buf) == 0 {
			tv := ex.timeValue(ex.Clock)
			if w, op := ex.findWaiter(t.ch, false); w != nil {
				ws := ex.waits[w]
				ex.makeReady(w)
				ws.complete(op, tv, true)
			} else {
				t.ch.buf = append(t.ch.buf, tv)
			}
		}
	}
	// compact
	live := ex.timers[:0]
	for _, t := range ex.timers {
		if t.active {
			live = append(live, t)
		}
	}
	ex.timers = live
}

// ---------------------------------------------------------------------------
// scheduler

func (ex *Exec) pollBlocked() {
	for _, g := range ex.gs {
		if g.status == gBlocked && g.canRun != nil && g.canRun() {
			g.status = gReady
			g.canRun = nil
			ex.enqueue(g)
		}
	}
}

func (ex *Exec) pickNext() *Goroutine {
	ex.pollBlocked()
	// drop stale entries
	q := ex.runq[:0]
	for _, g := range ex.runq {
		if g.status == gReady {
			q = append(q, g)
		}
	}
	ex.runq = q
	if len(ex.runq) == 0 {
		return nil
	}
	idx := 0
	if len(ex.runq) > 1 {
		idx = ex.schedChoice(len(ex.runq), "sched")
	}
	g := ex.runq[idx]
	ex.runq = append(ex.runq[:idx:idx], ex.runq[idx+1:]...)
	return g
}

// schedChoice returns the index to take among n alternatives; 0 is the default.
// Deviations are limited by SchedBudget.
func (ex *Exec) schedChoice(n int, kind string) int {
	if ex.SchedBudget-ex.schedUsed <= 0 {
		return 0
	}
	c := ex.decide(-1, n, kind)
	if c != 0 {
		ex.schedUsed++
	}
	return c
}

func (ex *Exec) loop() {
	for {
		if ex.gs[0].status == gDone {
			return
		}
		g := ex.cur
		if g == nil || g.status != gReady {
			g = ex.pickNext()
		} else if len(ex.runq) > 0 && ex.SchedBudget-ex.schedUsed > 0 {
			// the running goroutine yielded at a scheduling point: it stays the
			// default choice, any queued goroutine is a deviation
			ex.pollBlocked()
			ex.runq = append([]*Goroutine{g}, ex.runq...)
			g = ex.pickNext()
		}
		if g == nil {
			if ex.advanceTime() {
				// a harness that stays blocked while only free-running tickers fire
				// is hung: stop after a generous amount of virtual time
				if ex.Clock-ex.mainLastRun > maxMainBlockedNs {
					desc := ""
					for _, x := range ex.gs {
						if x.status == gBlocked {
							desc += fmt.Sprintf("[g%d %s: %s @ %s] ", x.id, x.name, x.waitFor, ex.stackString(x))
						}
					}
					ex.report(&Violation{Kind: "deadlock", Msg: "harness goroutine blocked for more than 2 virtual hours while only tickers fire: " + desc})
					return
				}
				continue
			}
			ex.onStuck()
			return
		}
		ex.cur = g
		if g.id == 0 {
			ex.mainLastRun = ex.Clock
		}
		ex.runGoroutine(g)
		if g.status != gReady {
			ex.cur = nil
		}
	}
}

// onStuck: nothing runnable and no timer pending while main has not finished.
func (ex *Exec) onStuck() {
	main := ex.gs[0]
	if main.status == gBlocked && main.waitFor == "quiesce" {
		// harness waits for quiescence: resume it
		ex.quiesced = true
		ex.makeReady(main)
		ex.cur = nil
		ex.loop()
		return
	}
	desc := ""
	for _, g := range ex.gs {
		if g.status == gBlocked {
			desc += fmt.Sprintf("[g%d %s: %s @ %s] ", g.id, g.name, g.waitFor, ex.stackString(g))
		}
	}
	ex.report(&Violation{Kind: "deadlock", Msg: "all goroutines blocked, no timer pending: " + desc})
}
