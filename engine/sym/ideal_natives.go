// ideal_natives.go: interception table for the idealised primitives.
package sym

import (
	"fmt"
	"go/types"
)

type hashObj struct {
	alg string
	key []*Term
	buf []*Term
	out int
}

type hkdfObj struct {
	app *idealApp
	off int
}

func (ex *Exec) opaqueIface(kind string, data interface{}) Iface {
	return Iface{T: synthType("verif." + kind), V: &Opaque{Kind: kind, Data: data}}
}

func (ex *Exec) garbagePoint(why string) *pubObj {
	st := ex.idl()
	st.fresh++
	g := &pubObj{id: ex.C.Var(fmt.Sprintf("gpt!%d", st.fresh), BV(64))}
	for _, p := range st.privs {
		ex.addPC(ex.C.Not(ex.C.Eq(g.id, ex.C.UF("Pub", BV(64), p.id))))
	}
	st.pubs = append(st.pubs, g)
	return g
}

func init() {
	cryptoNatives = map[string]NativeFn{
		"crypto/sha256.Sum256": func(ex *Exec, g *Goroutine, cs *callSite, args []Value) Value {
			a := ex.app("sha256", 32, ex.sliceTerms(args[0]))
			return termsArray(ex.appBytes(a, 0, 32))
		},
		"crypto/sha512.Sum512": func(ex *Exec, g *Goroutine, cs *callSite, args []Value) Value {
			a := ex.app("sha512", 64, ex.sliceTerms(args[0]))
			return termsArray(ex.appBytes(a, 0, 64))
		},
		"crypto/sha256.New": func(ex *Exec, g *Goroutine, cs *callSite, args []Value) Value {
			return ex.opaqueIface("hash", &hashObj{alg: "sha256", out: 32})
		},
		"crypto/hmac.New": func(ex *Exec, g *Goroutine, cs *callSite, args []Value) Value {
			return ex.opaqueIface("hash", &hashObj{alg: "hmac", key: ex.sliceTerms(args[1]), out: 32})
		},
		"golang.org/x/crypto/hkdf.New": func(ex *Exec, g *Goroutine, cs *callSite, args []Value) Value {
			a := ex.app("hkdf", 255*32, ex.sliceTerms(args[1]), ex.sliceTerms(args[2]), ex.sliceTerms(args[3]))
			return ex.opaqueIface("reader", &hkdfObj{app: a})
		},
		"golang.org/x/crypto/scrypt.Key": func(ex *Exec, g *Goroutine, cs *callSite, args []Value) Value {
			n, ok := constInt(args[5].(*Term))
			if !ok {
				panic(unsupported("scrypt.Key with symbolic key length"))
			}
			a := ex.app("scrypt", int(n), ex.sliceTerms(args[0]), ex.sliceTerms(args[1]))
			return Tuple{ex.termsSlice(ex.appBytes(a, 0, int(n))), Iface{}}
		},
		"golang.org/x/crypto/chacha20poly1305.New": func(ex *Exec, g *Goroutine, cs *callSite, args []Value) Value {
			key := ex.sliceTerms(args[0])
			if len(key) != 32 {
				return Tuple{Iface{}, ex.newError("chacha20poly1305: bad key length")}
			}
			return Tuple{ex.opaqueIface("aead", key), Iface{}}
		},
		"crypto/rand.Read": func(ex *Exec, g *Goroutine, cs *callSite, args []Value) Value {
			s := args[0].(Slice)
			n, ok := ex.constOf(s.lenOr0(ex))
			if !ok {
				panic(unsupported("rand.Read into a buffer of symbolic length"))
			}
			ex.idl().fresh++
			for i := int64(0); i < n; i++ {
				t := ex.C.Var(fmt.Sprintf("rand!%d[%d]", ex.idl().fresh, i), BV(8))
				ex.storeElem(s.Arr, ex.C.Bin(OAdd, s.Off, ex.i64(i)), t)
			}
			return Tuple{ex.i64(n), Iface{}}
		},
		"github.com/btcsuite/btcd/btcec/v2.NewPrivateKey": func(ex *Exec, g *Goroutine, cs *callSite, args []Value) Value {
			return Tuple{ex.privPtr(ex.newPriv("ephemeral", nil)), Iface{}}
		},
		"github.com/btcsuite/btcd/btcec/v2.ParsePubKey": func(ex *Exec, g *Goroutine, cs *callSite, args []Value) Value {
			s, _ := args[0].(Slice)
			n, ok := ex.constOf(s.lenOr0(ex))
			if !ok {
				panic(unsupported("ParsePubKey on a buffer of symbolic length"))
			}
			if n != 33 {
				return Tuple{Ptr{}, ex.newError("malformed public key: invalid length")}
			}
			p, okT := ex.parsePub(ex.sliceTerms(args[0]))
			if ex.branch(okT, cs.pos) {
				return Tuple{ex.pubPtr(p), Iface{}}
			}
			return Tuple{Ptr{}, ex.newError("invalid public key")}
		},
		"(*github.com/decred/dcrd/dcrec/secp256k1/v4.PublicKey).SerializeCompressed": func(ex *Exec, g *Goroutine, cs *callSite, args []Value) Value {
			p := ex.asPub(args[0])
			if p == nil {
				ex.goPanic(g, ex.topFrame(g), "nil pointer dereference (SerializeCompressed on nil public key)", cs.pos)
			}
			return ex.termsSlice(ex.serBytes(p))
		},
		"(*github.com/decred/dcrd/dcrec/secp256k1/v4.PublicKey).IsEqual": func(ex *Exec, g *Goroutine, cs *callSite, args []Value) Value {
			a, b := ex.asPub(args[0]), ex.asPub(args[1])
			if a == nil || b == nil {
				ex.goPanic(g, ex.topFrame(g), "nil pointer dereference (IsEqual on nil public key)", cs.pos)
			}
			return ex.eqPoint(a, b)
		},
		"(*github.com/decred/dcrd/dcrec/secp256k1/v4.PrivateKey).PubKey": func(ex *Exec, g *Goroutine, cs *callSite, args []Value) Value {
			p := ex.asPriv(args[0])
			if p == nil {
				ex.goPanic(g, ex.topFrame(g), "nil pointer dereference (PubKey on nil private key)", cs.pos)
			}
			return ex.pubPtr(ex.pubOf(p))
		},
		"(*github.com/lightningnetwork/lnd/keychain.PrivKeyECDH).ECDH": func(ex *Exec, g *Goroutine, cs *callSite, args []Value) Value {
			recv := args[0].(Ptr)
			if recv.Slot == nil {
				ex.goPanic(g, ex.topFrame(g), "nil pointer dereference (ECDH on nil key)", cs.pos)
			}
			priv := ex.asPriv((*recv.Slot).(Struct)[0])
			pub := ex.asPub(args[1])
			if priv == nil || pub == nil {
				ex.goPanic(g, ex.topFrame(g), "nil pointer dereference (ECDH with nil key)", cs.pos)
			}
			return Tuple{termsArray(ex.dh(pub, priv)), Iface{}}
		},
	}
	cryptoNatives["(github.com/decred/dcrd/dcrec/secp256k1/v4.PublicKey).SerializeCompressed"] =
		cryptoNatives["(*github.com/decred/dcrd/dcrec/secp256k1/v4.PublicKey).SerializeCompressed"]
	opaqueHandlers["hash"] = func(ex *Exec, g *Goroutine, cs *callSite, op *Opaque, method string, args []Value) Value {
		h := op.Data.(*hashObj)
		switch method {
		case "Write":
			ts := ex.sliceTerms(args[1])
			h.buf = append(h.buf, ts...)
			return Tuple{ex.i64(int64(len(ts))), Iface{}}
		case "Sum":
			var a *idealApp
			if h.alg == "hmac" {
				a = ex.app("hmac", h.out, h.key, append([]*Term(nil), h.buf...))
			} else {
				a = ex.app(h.alg, h.out, append([]*Term(nil), h.buf...))
			}
			pre := ex.sliceTerms(args[1])
			return ex.termsSlice(append(pre, ex.appBytes(a, 0, h.out)...))
		case "Reset":
			h.buf = nil
			return nil
		case "Size":
			return ex.i64(int64(h.out))
		case "BlockSize":
			return ex.i64(64)
		}
		panic(unsupported("hash method %s", method))
	}
	opaqueHandlers["reader"] = func(ex *Exec, g *Goroutine, cs *callSite, op *Opaque, method string, args []Value) Value {
		r := op.Data.(*hkdfObj)
		if method != "Read" {
			panic(unsupported("hkdf reader method %s", method))
		}
		s := args[1].(Slice)
		n, ok := ex.constOf(s.lenOr0(ex))
		if !ok {
			panic(unsupported("hkdf read of symbolic length"))
		}
		bs := ex.appBytes(r.app, r.off, int(n))
		for i := int64(0); i < n; i++ {
			ex.storeElem(s.Arr, ex.C.Bin(OAdd, s.Off, ex.i64(i)), bs[i])
		}
		r.off += int(n)
		return Tuple{ex.i64(n), Iface{}}
	}
	opaqueHandlers["aead"] = func(ex *Exec, g *Goroutine, cs *callSite, op *Opaque, method string, args []Value) Value {
		key := op.Data.([]*Term)
		switch method {
		case "Seal":
			return ex.aeadSeal(key, args[1], args[2], args[3], args[4], ex.where(ex.topFrame(g), cs.pos))
		case "Open":
			return ex.aeadOpen(key, args[1], args[2], args[3], args[4], cs)
		case "NonceSize":
			return ex.i64(12)
		case "Overhead":
			return ex.i64(16)
		}
		panic(unsupported("aead method %s", method))
	}
}

var _ = types.Typ
