// value.go: run-time values of the symbolic interpreter.
//
// Scalars are *Term (constants are folded). Aggregates are copied on
// load/store like in x/tools' concrete go/ssa/interp, whose value model this
// follows; pointers are concrete (a slot, or an array object plus a possibly
// symbolic index).
package sym

import (
	"fmt"
	"go/types"

	"golang.org/x/tools/go/ssa"
)

type Value interface{}

type Struct []Value
type Array []Value
type Tuple []Value

// Ptr is a pointer value. The nil pointer is Ptr{}.
//   - Slot != nil: address of a variable / field / element with concrete index.
//   - Arr != nil: address of element Idx of an array object (Idx may be symbolic).
type Ptr struct {
	Slot *Value
	Arr  *ArrObj
	Idx  *Term // 64-bit
	// Tag distinguishes opaque non-nil pointers produced by models (e.g. keys).
	Tag interface{}
}

func (p Ptr) IsNil() bool { return p.Slot == nil && p.Arr == nil && p.Tag == nil }

// ArrObj is the backing store of slices. Either dense (concrete capacity, one
// Value per element) or functional (symbolic length; see symarr.go).
type ArrObj struct {
	Elem  types.Type
	Dense []Value
	// functional representation
	N       *Term      // length (64-bit) when Dense == nil
	Content symContent // current content
	id      int
	// bigArray: this object is the value of a large Go array (value semantics)
	bigArray bool
}

// Slice value; the nil slice has Arr == nil.
type Slice struct {
	Arr           *ArrObj
	Off, Len, Cap *Term // 64-bit
}

type Iface struct {
	T types.Type // dynamic type; nil for the nil interface
	V Value
}

type Closure struct {
	Fn  *ssa.Function
	Env []Value
	// Native, if set, is an engine-implemented function value.
	Native func(ex *Exec, g *Goroutine, args []Value) Value
	Name   string
	// Bound receiver for method values created by the engine.
	Recv Value
	HasR bool
}

type mapEntry struct {
	key     Value
	val     Value
	present *Term
}

type Map struct {
	KeyT, ValT types.Type
	entries    []*mapEntry
	strIdx     map[string]int // concrete string keys -> entry index (fast path)
	id         int
}

type Chan struct {
	id     int
	Cap    *Term // 64-bit
	buf    []Value
	closed bool
	ElemT  types.Type
	// timer channel bookkeeping
	timer *Timer
	// race detection: vector clock of last close/send
	sendClocks []VC
	closeClock VC
}

// opaque values produced by environment models (ideal crypto objects etc.)
type Opaque struct {
	Kind string
	Data interface{}
}

func (ex *Exec) zero(t types.Type) Value {
	c := ex.C
	switch t := t.(type) {
	case *types.Basic:
		switch {
		case t.Kind() == types.String || t.Kind() == types.UntypedString:
			return ""
		case t.Kind() == types.UnsafePointer:
			return Ptr{}
		case t.Kind() == types.UntypedNil:
			return nil
		case t.Info()&types.IsBoolean != 0:
			return c.False()
		case t.Info()&types.IsFloat != 0:
			return c.Const(FP(basicWidth(t)), 0)
		case t.Info()&types.IsInteger != 0:
			return c.Const(BV(basicWidth(t)), 0)
		}
		panic(fmt.Sprintf("zero: unsupported basic type %s", t))
	case *types.Pointer:
		return Ptr{}
	case *types.Slice:
		return Slice{}
	case *types.Map:
		return (*Map)(nil)
	case *types.Chan:
		return (*Chan)(nil)
	case *types.Signature:
		return (*Closure)(nil)
	case *types.Interface:
		return Iface{}
	case *types.Struct:
		s := make(Struct, t.NumFields())
		for i := range s {
			s[i] = ex.zero(t.Field(i).Type())
		}
		return s
	case *types.Array:
		if t.Len() > ex.MaxDense && ex.MaxDense > 0 {
			if _, scalar := ex.zero(t.Elem()).(*Term); scalar {
				// large fixed-size buffers are kept functional (value semantics:
				// copies share the immutable content tree)
				return ex.newSym(t.Elem(), ex.i64(t.Len()), symZero{})
			}
		}
		a := make(Array, t.Len())
		if t.Len() > 0 {
			z := ex.zero(t.Elem())
			if _, scalar := z.(*Term); scalar {
				for i := range a {
					a[i] = z
				}
			} else {
				for i := range a {
					a[i] = ex.zero(t.Elem())
				}
			}
		}
		return a
	case *types.Tuple:
		tu := make(Tuple, t.Len())
		for i := range tu {
			tu[i] = ex.zero(t.At(i).Type())
		}
		return tu
	case *types.Named:
		return ex.zero(t.Underlying())
	case *types.Alias:
		return ex.zero(types.Unalias(t))
	}
	panic(fmt.Sprintf("zero: unsupported type %T %s", t, t))
}

func basicWidth(t *types.Basic) int {
	switch t.Kind() {
	case types.Bool, types.UntypedBool:
		return 1
	case types.Int8, types.Uint8:
		return 8
	case types.Int16, types.Uint16:
		return 16
	case types.Int32, types.Uint32, types.Float32, types.UntypedRune:
		return 32
	case types.Int, types.Uint, types.Int64, types.Uint64, types.Uintptr, types.Float64,
		types.UntypedInt, types.UntypedFloat:
		return 64
	}
	panic(fmt.Sprintf("basicWidth: %s", t))
}

func isSigned(t types.Type) bool {
	b, ok := t.Underlying().(*types.Basic)
	if !ok {
		return false
	}
	return b.Info()&types.IsInteger != 0 && b.Info()&types.IsUnsigned == 0
}

func isFloat(t types.Type) bool {
	b, ok := t.Underlying().(*types.Basic)
	return ok && b.Info()&types.IsFloat != 0
}

func isInteger(t types.Type) bool {
	b, ok := t.Underlying().(*types.Basic)
	return ok && b.Info()&types.IsInteger != 0
}

func isString(t types.Type) bool {
	b, ok := t.Underlying().(*types.Basic)
	return ok && b.Info()&types.IsString != 0
}

func isBool(t types.Type) bool {
	b, ok := t.Underlying().(*types.Basic)
	return ok && b.Info()&types.IsBoolean != 0
}

// copyVal deep-copies aggregates (value semantics).
func copyVal(v Value) Value {
	switch v := v.(type) {
	case Struct:
		n := make(Struct, len(v))
		for i, f := range v {
			n[i] = copyVal(f)
		}
		return n
	case Array:
		n := make(Array, len(v))
		for i, f := range v {
			n[i] = copyVal(f)
		}
		return n
	case Tuple:
		n := make(Tuple, len(v))
		copy(n, v)
		return n
	case *ArrObj:
		if v != nil && v.bigArray {
			return &ArrObj{Elem: v.Elem, N: v.N, Content: v.Content, bigArray: true}
		}
	}
	return v
}

// storeInto writes v into *slot in place for aggregates so that pointers to
// fields/elements taken earlier stay valid.
func storeInto(slot *Value, v Value) {
	switch nv := v.(type) {
	case Struct:
		if old, ok := (*slot).(Struct); ok && len(old) == len(nv) {
			for i := range nv {
				storeInto(&old[i], nv[i])
			}
			return
		}
	case Array:
		if old, ok := (*slot).(Array); ok && len(old) == len(nv) {
			for i := range nv {
				storeInto(&old[i], nv[i])
			}
			return
		}
	case *ArrObj:
		if old, ok := (*slot).(*ArrObj); ok && old != nil && nv != nil && old.bigArray && nv.bigArray {
			old.Content = nv.Content // in place: slices of the array stay valid
			return
		}
	}
	*slot = copyVal(v)
}

func (ex *Exec) i64(v int64) *Term  { return ex.C.Const(BV(64), uint64(v)) }
func (ex *Exec) u64(v uint64) *Term { return ex.C.Const(BV(64), v) }

// constOf is constInt plus the terms that were concretised on this path.
func (ex *Exec) constOf(t *Term) (int64, bool) {
	if t.IsConst() {
		return sext64(t.Val, t.Sort.W), true
	}
	if v, ok := ex.concrete[t.ID]; ok {
		return v, true
	}
	return 0, false
}

// constInt returns the concrete value of a constant term.
func constInt(t *Term) (int64, bool) {
	if t.IsConst() {
		return sext64(t.Val, t.Sort.W), true
	}
	return 0, false
}

// merge builds ite(c, a, b) over structured values. It returns ok=false when
// the values cannot be merged without forking (different pointers etc.).
func (ex *Exec) merge(c *Term, a, b Value) (Value, bool) {
	if c.IsTrue() {
		return a, true
	}
	if c.IsFalse() {
		return b, true
	}
	switch x := a.(type) {
	case *Term:
		y, ok := b.(*Term)
		if !ok || x.Sort != y.Sort {
			return nil, false
		}
		return ex.C.Ite(c, x, y), true
	case Struct:
		y, ok := b.(Struct)
		if !ok || len(x) != len(y) {
			return nil, false
		}
		r := make(Struct, len(x))
		for i := range x {
			m, ok := ex.merge(c, x[i], y[i])
			if !ok {
				return nil, false
			}
			r[i] = m
		}
		return r, true
	case Array:
		y, ok := b.(Array)
		if !ok || len(x) != len(y) {
			return nil, false
		}
		r := make(Array, len(x))
		for i := range x {
			m, ok := ex.merge(c, x[i], y[i])
			if !ok {
				return nil, false
			}
			r[i] = m
		}
		return r, true
	case Tuple:
		y, ok := b.(Tuple)
		if !ok || len(x) != len(y) {
			return nil, false
		}
		r := make(Tuple, len(x))
		for i := range x {
			m, ok := ex.merge(c, x[i], y[i])
			if !ok {
				return nil, false
			}
			r[i] = m
		}
		return r, true
	case Slice:
		y, ok := b.(Slice)
		if !ok || x.Arr != y.Arr {
			return nil, false
		}
		if x.Arr == nil {
			return x, true
		}
		return Slice{Arr: x.Arr, Off: ex.C.Ite(c, x.Off, y.Off), Len: ex.C.Ite(c, x.Len, y.Len), Cap: ex.C.Ite(c, x.Cap, y.Cap)}, true
	case Ptr:
		y, ok := b.(Ptr)
		if !ok {
			return nil, false
		}
		if x.Slot == y.Slot && x.Arr == y.Arr && x.Tag == y.Tag {
			if x.Arr != nil {
				return Ptr{Arr: x.Arr, Idx: ex.C.Ite(c, x.Idx, y.Idx)}, true
			}
			return x, true
		}
		return nil, false
	case string:
		if y, ok := b.(string); ok && x == y {
			return x, true
		}
		return nil, false
	case Iface:
		y, ok := b.(Iface)
		if !ok {
			return nil, false
		}
		if x.T == nil && y.T == nil {
			return x, true
		}
		if x.T == nil || y.T == nil || !types.Identical(x.T, y.T) {
			return nil, false
		}
		m, ok := ex.merge(c, x.V, y.V)
		if !ok {
			return nil, false
		}
		return Iface{T: x.T, V: m}, true
	case nil:
		if b == nil {
			return nil, true
		}
		return nil, false
	}
	// identity-comparable objects
	if a == b {
		return a, true
	}
	return nil, false
}

// eqValue returns the Bool term for a == b.
func (ex *Exec) eqValue(a, b Value) *Term {
	c := ex.C
	switch x := a.(type) {
	case *Term:
		y := b.(*Term)
		if x.Sort.K == KFP {
			return c.FPCmp(OFPEq, x, y)
		}
		return c.Eq(x, y)
	case string:
		switch y := b.(type) {
		case string:
			return c.Bool(x == y)
		case *SymStr:
			return ex.symStrEq(y, x)
		}
	case *SymStr:
		switch y := b.(type) {
		case string:
			return ex.symStrEq(x, y)
		case *SymStr:
			return ex.symStrEq2(x, y)
		}
	case Ptr:
		y := b.(Ptr)
		if x.Arr != nil && x.Arr == y.Arr {
			return c.Eq(x.Idx, y.Idx)
		}
		return c.Bool(x.Slot == y.Slot && x.Arr == y.Arr && x.Tag == y.Tag)
	case Struct:
		y := b.(Struct)
		r := c.True()
		for i := range x {
			r = c.And(r, ex.eqValue(x[i], y[i]))
		}
		return r
	case Array:
		y := b.(Array)
		if len(x) >= 16 && len(x) == len(y) {
			// byte arrays holding outputs of the ideal primitives (keys,
			// hashes): the structural equality of the ideal model decides,
			// as for slices (an ideal output never equals a public constant)
			xs, ys := make([]*Term, len(x)), make([]*Term, len(y))
			bytesOnly, ideal := true, false
			for i := range x {
				xt, ok1 := x[i].(*Term)
				yt, ok2 := y[i].(*Term)
				if !ok1 || !ok2 || xt.Sort.K != KBV || xt.Sort.W != 8 || yt.Sort.W != 8 {
					bytesOnly = false
					break
				}
				xs[i], ys[i] = xt, yt
				if _, _, ok := ex.idealByte(ex.resolveView(xt)); ok {
					ideal = true
				}
				if _, _, ok := ex.idealByte(ex.resolveView(yt)); ok {
					ideal = true
				}
				// bytes of a point encoding (also the x-only form, which
				// drops byte 0): decided by the injectivity rule, not by
				// free values of the uninterpreted function
				if (xt.Op == OUF && xt.Name == "ser") || (yt.Op == OUF && yt.Name == "ser") {
					ideal = true
				}
			}
			if bytesOnly && ideal {
				return ex.eqBytes(xs, ys)
			}
		}
		r := c.True()
		for i := range x {
			r = c.And(r, ex.eqValue(x[i], y[i]))
		}
		return r
	case Iface:
		y := b.(Iface)
		if x.T == nil || y.T == nil {
			return c.Bool(x.T == nil && y.T == nil)
		}
		if !types.Identical(x.T, y.T) {
			return c.False()
		}
		return ex.eqValue(x.V, y.V)
	case *Chan:
		return c.Bool(x == b.(*Chan))
	case *Map:
		return c.Bool(x == b.(*Map))
	case *Closure:
		return c.Bool(x == b.(*Closure))
	case *Opaque:
		y, ok := b.(*Opaque)
		return c.Bool(ok && x == y)
	case Slice:
		// only comparison with nil is legal
		y := b.(Slice)
		return c.Bool(x.Arr == nil && y.Arr == nil)
	case nil:
		return c.Bool(b == nil)
	}
	panic(fmt.Sprintf("eqValue: unsupported %T vs %T", a, b))
}

func typeString(t types.Type) string {
	if t == nil {
		return "<nil>"
	}
	return types.TypeString(t, nil)
}
