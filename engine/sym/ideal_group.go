package sym

// Abstract group model for the secp256k1 point arithmetic that the SPAKE2
// masking (mailbox.ekeMask / ekeUnmask) performs. The real bodies of those two
// functions are interpreted; what is intercepted are the curve primitives
// below. A Jacobian point is a formal linear combination of abstract points
// with scalar coefficients (discrete logarithms between distinct abstract
// points are unknown - the ideal-group assumption). When a combination is
// turned back into a public key its shape decides the result:
//
//	P                 -> P
//	P + s*G'          -> Mask(P, s) w.r.t. generator G'
//	P - s*G'          -> Unmask(P, s) w.r.t. generator G'
//
// anything else is unsupported (the path becomes inconclusive, never a pass).
// Scalars are the byte strings given to ModNScalar.SetByteSlice; distinct
// byte strings are distinct scalars (true below the group order; stated).

type lcTerm struct {
	base   *pubObj
	scalar []*Term // nil: coefficient one
	neg    bool
}

type jacObj struct {
	terms []lcTerm
}

type jacRef struct {
	obj   *jacObj
	field int
}

const secpPkg = "github.com/decred/dcrd/dcrec/secp256k1/v4"

func (ex *Exec) jacTable() map[*Value]jacRef {
	st := ex.idl()
	if st.jac == nil {
		st.jac = map[*Value]jacRef{}
		st.scalars = map[*Value][]*Term{}
	}
	return st.jac
}

// jacSlots returns the addresses of the three field cells of a JacobianPoint.
func (ex *Exec) jacSlots(v Value) []*Value {
	p, ok := v.(Ptr)
	if !ok || p.Slot == nil {
		panic(unsupported("JacobianPoint reached through an opaque pointer"))
	}
	s, ok := (*p.Slot).(Struct)
	if !ok || len(s) != 3 {
		panic(unsupported("JacobianPoint with unexpected representation"))
	}
	return []*Value{&s[0], &s[1], &s[2]}
}

func (ex *Exec) setJac(v Value, o *jacObj) {
	t := ex.jacTable()
	for i, sl := range ex.jacSlots(v) {
		t[sl] = jacRef{o, i}
	}
}

func (ex *Exec) getJac(v Value) *jacObj {
	t := ex.jacTable()
	r, ok := t[ex.jacSlots(v)[0]]
	if !ok {
		panic(unsupported("arithmetic on a JacobianPoint that no modelled operation produced"))
	}
	return r.obj
}

func (ex *Exec) fieldRef(v Value) (jacRef, bool) {
	p, ok := v.(Ptr)
	if !ok || p.Slot == nil {
		return jacRef{}, false
	}
	r, ok := ex.jacTable()[p.Slot]
	return r, ok
}

func init() {
	groupNatives = map[string]NativeFn{
		"(*" + secpPkg + ".ModNScalar).SetByteSlice": func(ex *Exec, g *Goroutine, cs *callSite, args []Value) Value {
			ex.jacTable()
			p, ok := args[0].(Ptr)
			if !ok || p.Slot == nil {
				panic(unsupported("ModNScalar reached through an opaque pointer"))
			}
			ex.idl().scalars[p.Slot] = ex.sliceTerms(args[1])
			return ex.C.False() // no overflow (values below the group order)
		},
		"(*" + secpPkg + ".PublicKey).AsJacobian": func(ex *Exec, g *Goroutine, cs *callSite, args []Value) Value {
			pk := ex.asPub(args[0])
			if pk == nil {
				ex.goPanic(g, ex.topFrame(g), "nil pointer dereference (AsJacobian on nil public key)", cs.pos)
			}
			if pk.scaledGen != nil {
				ex.setJac(args[1], &jacObj{terms: []lcTerm{{base: pk.scaledGen, scalar: pk.scaledPw}}})
				return nil
			}
			ex.setJac(args[1], &jacObj{terms: []lcTerm{{base: pk}}})
			return nil
		},
		secpPkg + ".ScalarMultNonConst": func(ex *Exec, g *Goroutine, cs *callSite, args []Value) Value {
			ex.jacTable()
			kp, ok := args[0].(Ptr)
			if !ok || kp.Slot == nil {
				panic(unsupported("ScalarMultNonConst with an opaque scalar"))
			}
			sc, ok := ex.idl().scalars[kp.Slot]
			if !ok {
				panic(unsupported("ScalarMultNonConst with a scalar that SetByteSlice did not produce"))
			}
			pt := ex.getJac(args[1])
			if len(pt.terms) != 1 || pt.terms[0].scalar != nil {
				panic(unsupported("scalar multiplication of a composite point"))
			}
			ex.setJac(args[2], &jacObj{terms: []lcTerm{{base: pt.terms[0].base, scalar: sc, neg: pt.terms[0].neg}}})
			return nil
		},
		secpPkg + ".AddNonConst": func(ex *Exec, g *Goroutine, cs *callSite, args []Value) Value {
			a, b := ex.getJac(args[0]), ex.getJac(args[1])
			sum := &jacObj{}
			sum.terms = append(append(sum.terms, a.terms...), b.terms...)
			// T + (-T) cancels (same base point, structurally the same scalar)
			for changed := true; changed; {
				changed = false
			scan:
				for i := range sum.terms {
					for j := i + 1; j < len(sum.terms); j++ {
						x, y := sum.terms[i], sum.terms[j]
						if x.base == y.base && x.neg != y.neg && (x.scalar == nil) == (y.scalar == nil) && keyOf(x.scalar) == keyOf(y.scalar) {
							rest := append([]lcTerm{}, sum.terms[:i]...)
							rest = append(rest, sum.terms[i+1:j]...)
							rest = append(rest, sum.terms[j+1:]...)
							sum.terms = rest
							changed = true
							break scan
						}
					}
				}
			}
			ex.setJac(args[2], sum)
			return nil
		},
		"(*" + secpPkg + ".JacobianPoint).ToAffine": func(ex *Exec, g *Goroutine, cs *callSite, args []Value) Value {
			ex.getJac(args[0])
			return nil
		},
		// Z == 0 characterises the point at infinity: the empty combination
		"(*" + secpPkg + ".FieldVal).IsZero": func(ex *Exec, g *Goroutine, cs *callSite, args []Value) Value {
			r, ok := ex.fieldRef(args[0])
			if !ok || r.field != 2 {
				panic(unsupported("FieldVal.IsZero on something else than the Z coordinate of a modelled point"))
			}
			return ex.C.Bool(len(r.obj.terms) == 0)
		},
		"(*" + secpPkg + ".FieldVal).Normalize": func(ex *Exec, g *Goroutine, cs *callSite, args []Value) Value {
			if _, ok := ex.fieldRef(args[0]); !ok {
				panic(unsupported("FieldVal.Normalize outside a modelled point"))
			}
			return args[0]
		},
		"(*" + secpPkg + ".FieldVal).Negate": func(ex *Exec, g *Goroutine, cs *callSite, args []Value) Value {
			r, ok := ex.fieldRef(args[0])
			if !ok {
				panic(unsupported("FieldVal.Negate outside a modelled point"))
			}
			if r.field != 1 {
				panic(unsupported("negation of a coordinate other than Y"))
			}
			// -(x, y) = (x, -y): every coefficient changes sign; the object
			// is updated in place (all three cells refer to it)
			for i := range r.obj.terms {
				r.obj.terms[i].neg = !r.obj.terms[i].neg
			}
			return args[0]
		},
		secpPkg + ".NewPublicKey": func(ex *Exec, g *Goroutine, cs *callSite, args []Value) Value {
			rx, okx := ex.fieldRef(args[0])
			ry, oky := ex.fieldRef(args[1])
			if !okx || !oky || rx.obj != ry.obj || rx.field != 0 || ry.field != 1 {
				panic(unsupported("NewPublicKey from coordinates that are not the X and Y of one modelled point"))
			}
			return ex.pubPtr(ex.pointOf(rx.obj, cs))
		},
	}
}

// pointOf turns a linear combination back into an abstract public key.
func (ex *Exec) pointOf(o *jacObj, cs *callSite) *pubObj {
	var plain, scaled []lcTerm
	for _, t := range o.terms {
		if t.scalar == nil {
			plain = append(plain, t)
		} else {
			scaled = append(scaled, t)
		}
	}
	if len(plain) == 1 && !plain[0].neg && len(scaled) == 0 {
		return plain[0].base
	}
	if len(plain) == 0 && len(scaled) == 0 {
		// the point at infinity turned into a key: the (0,0) pseudo key of
		// btcec, unrelated to every real key
		return ex.garbagePoint("identity")
	}
	if len(plain) == 0 && len(scaled) == 1 && !scaled[0].neg {
		// s*G': computable by whoever knows s
		st := ex.idl()
		for _, q := range st.pubs {
			if q.scaledGen == scaled[0].base && keyOf(q.scaledPw) == keyOf(scaled[0].scalar) {
				return q
			}
		}
		a := ex.app("scaled", 0, []*Term{scaled[0].base.id}, scaled[0].scalar)
		q := &pubObj{id: ex.C.UF("scaledpt", BV(64), scaled[0].base.id, ex.i64(int64(a.id))), scaledGen: scaled[0].base, scaledPw: scaled[0].scalar}
		st.pubs = append(st.pubs, q)
		return q
	}
	if len(plain) == 1 && !plain[0].neg && len(scaled) == 1 {
		if scaled[0].neg {
			return ex.unmaskCore(plain[0].base, scaled[0].base, scaled[0].scalar, cs)
		}
		return ex.maskCore(plain[0].base, scaled[0].base, scaled[0].scalar)
	}
	panic(unsupported("public key from a point combination of unexpected shape (%d plain, %d scaled terms)", len(plain), len(scaled)))
}

// maskCore: Mask(e, s) = e + s*gen.
func (ex *Exec) maskCore(e, gen *pubObj, pw []*Term) *pubObj {
	a := ex.app("mask", 0, []*Term{e.id, gen.id}, pw)
	st := ex.idl()
	for _, m := range st.masked {
		if m.inner == e && m.gen == gen && keyOf(m.pw) == keyOf(pw) {
			return m
		}
	}
	m := &pubObj{id: ex.C.UF("maskpt", BV(64), e.id, ex.i64(int64(a.id))), inner: e, pw: pw, gen: gen}
	st.masked = append(st.masked, m)
	st.pubs = append(st.pubs, m)
	return m
}

// unmaskCore: me - s*gen is the inner point iff me is a masked point with the
// same generator and the same scalar; otherwise an unrelated point.
func (ex *Exec) unmaskCore(me, gen *pubObj, pw []*Term, cs *callSite) *pubObj {
	st := ex.idl()
	cand := me
	if me.inner == nil {
		// a parsed point: is it one of the masked points on the wire?
		cand = nil
		for _, m := range st.masked {
			if ex.branch(ex.eqPoint(me, m), cs.pos) {
				cand = m
				break
			}
		}
	}
	if cand != nil && cand.gen == gen {
		if ex.branch(ex.eqBytes(cand.pw, pw), cs.pos) {
			return cand.inner
		}
	}
	return ex.garbagePoint("unmask")
}
