// interp.go: the symbolic interpreter over go/ssa. Explicit frame stacks (no
// host recursion for interpreted calls), deterministic given a decision
// vector; see explore.go for the stateless search that drives it.
package sym

import (
	"fmt"
	"go/constant"
	"go/token"
	"go/types"
	"strings"
	"sync"

	"golang.org/x/tools/go/ssa"
)

// Program is the immutable, shared part: SSA of /repo + harness overlay.
type Program struct {
	Prog    *ssa.Program
	Main    *ssa.Package
	Fset    *token.FileSet
	numMu   sync.Mutex
	numbers map[*ssa.Function]*fnInfo
	errStrT  types.Type
	// packages whose init functions are executed at the start of every path
	InitPkgs map[string]bool
	// per-run stubs: fully qualified function name -> native model
	Stubs map[string]NativeFn
	// harness files (base names) left out because they do not compile
	// against the current tree, with the first error of each
	Dropped map[string]string
}

type fnInfo struct {
	idx map[ssa.Value]int
	n   int
}

func (p *Program) info(fn *ssa.Function) *fnInfo {
	p.numMu.Lock()
	defer p.numMu.Unlock()
	if fi, ok := p.numbers[fn]; ok {
		return fi
	}
	fi := &fnInfo{idx: map[ssa.Value]int{}}
	for _, pa := range fn.Params {
		fi.idx[pa] = fi.n
		fi.n++
	}
	for _, b := range fn.Blocks {
		for _, in := range b.Instrs {
			if v, ok := in.(ssa.Value); ok {
				fi.idx[v] = fi.n
				fi.n++
			}
		}
	}
	p.numbers[fn] = fi
	return fi
}

type deferred struct {
	fn   Value
	args []Value
	// for invoke-mode defers
	method *types.Func
	recv   Value
	instr  *ssa.Defer
}

type Frame struct {
	fn      *ssa.Function
	info    *fnInfo
	locals  []Value
	env     []Value
	block   *ssa.BasicBlock
	prev    *ssa.BasicBlock
	pc      int
	defers  []*deferred
	retTo   int // index in caller's locals for the result, -1 to discard
	result  Value
	// native continuation invoked when this frame returns (engine-driven calls)
	onReturn func(ret Value)
}

type gStatus int

const (
	gReady gStatus = iota
	gBlocked
	gDone
)

type Goroutine struct {
	id      int
	stack   []*Frame
	status  gStatus
	canRun  func() bool // when blocked: may the blocking instruction be retried?
	waitFor string
	vc      VC
	name    string
	// blocking native call result passing
	sleepUntil *Term
	created    string
}

// NativeFn is an engine-implemented function. It may return errBlock (via
// ex.block) to indicate that the calling goroutine must wait and retry.
type NativeFn func(ex *Exec, g *Goroutine, call *callSite, args []Value) Value

type callSite struct {
	fn    *ssa.Function
	instr ssa.Instruction
	pos   token.Pos
}

// control-flow signals raised with panic() inside the interpreter and caught
// in Exec.Run.
type pathEnd struct{ reason string }

type Violation struct {
	Kind    string // assert | panic | deadlock | race | ...
	Msg     string
	Class   string
	Model   map[string]interface{}
	Trail   []int
	Where   string
	Harness string
	Known   string // non-empty: matches a recorded known finding
	KnownProp string
}

func (ex *Exec) get(fr *Frame, v ssa.Value) Value {
	switch v := v.(type) {
	case *ssa.Const:
		return ex.constValue(v)
	case *ssa.Global:
		return Ptr{Slot: ex.globalSlot(v)}
	case *ssa.Function:
		return ex.funcValue(v)
	case *ssa.FreeVar:
		for i, fv := range fr.fn.FreeVars {
			if fv == v {
				return fr.env[i]
			}
		}
		panic("freevar not found")
	case *ssa.Builtin:
		return &Closure{Name: "builtin:" + v.Name()}
	}
	i, ok := fr.info.idx[v]
	if !ok {
		panic(fmt.Sprintf("get: no slot for %T %s in %s", v, v.Name(), fr.fn))
	}
	return fr.locals[i]
}

func (ex *Exec) set(fr *Frame, v ssa.Value, x Value) {
	fr.locals[fr.info.idx[v]] = x
}

func (ex *Exec) funcValue(f *ssa.Function) *Closure {
	if c, ok := ex.funcVals[f]; ok {
		return c
	}
	c := &Closure{Fn: f}
	ex.funcVals[f] = c
	return c
}

func (ex *Exec) globalSlot(g *ssa.Global) *Value {
	if s, ok := ex.globals[g]; ok {
		return s
	}
	pkg := ""
	if g.Pkg != nil {
		pkg = g.Pkg.Pkg.Path()
	}
	if !ex.P.InitPkgs[pkg] && !ex.zeroOKGlobal(g) {
		panic(unsupported("read of global %s of package %s whose init is not executed", g.Name(), pkg))
	}
	s := new(Value)
	*s = ex.zero(g.Type().(*types.Pointer).Elem())
	ex.globals[g] = s
	return s
}

func (ex *Exec) constValue(c *ssa.Const) Value {
	if c.Value == nil {
		return ex.zero(c.Type())
	}
	t, ok := c.Type().Underlying().(*types.Basic)
	if !ok {
		panic(fmt.Sprintf("constValue: non-basic %s", c.Type()))
	}
	switch {
	case t.Info()&types.IsBoolean != 0:
		return ex.C.Bool(constant.BoolVal(c.Value))
	case t.Info()&types.IsString != 0:
		if c.Value.Kind() == constant.String {
			return constant.StringVal(c.Value)
		}
		return string(rune(c.Int64()))
	case t.Info()&types.IsFloat != 0:
		return ex.C.FPConst(basicWidth(t), c.Float64())
	case t.Info()&types.IsInteger != 0:
		w := basicWidth(t)
		if t.Info()&types.IsUnsigned != 0 {
			return ex.C.Const(BV(w), c.Uint64())
		}
		return ex.C.Const(BV(w), uint64(c.Int64()))
	}
	panic(fmt.Sprintf("constValue: %s", c))
}

// ---------------------------------------------------------------------------
// frames

func (ex *Exec) newFrame(fn *ssa.Function, args []Value, env []Value) *Frame {
	if len(fn.Blocks) == 0 {
		panic(unsupported("call of function without body: %s", fn.String()))
	}
	fi := ex.P.info(fn)
	fr := &Frame{fn: fn, info: fi, locals: make([]Value, fi.n), env: env, block: fn.Blocks[0], retTo: -1}
	for i, a := range args {
		fr.locals[i] = a
	}
	return fr
}

// ---------------------------------------------------------------------------
// step: executes instructions of goroutine g until it blocks, finishes or
// yields. Returns when a scheduling decision is needed.

func (ex *Exec) runGoroutine(g *Goroutine) {
	for {
		if len(g.stack) == 0 {
			g.status = gDone
			return
		}
		fr := g.stack[len(g.stack)-1]
		if fr.pc >= len(fr.block.Instrs) {
			panic("fell off the end of a block in " + fr.fn.String())
		}
		instr := fr.block.Instrs[fr.pc]
		ex.Steps++
		if ex.Steps == ex.MaxSteps/2 {
			ex.clockAtHalf = ex.Clock
		}
		if ex.Steps > ex.MaxSteps {
			// Livelock: a concurrent run in which the second half of the
			// budget was spent without the virtual clock moving - some
			// goroutine spins without ever blocking (a busy retry loop).
			// Reported like a hang; the native replay has to confirm it.
			if len(ex.gs) > 1 && ex.Clock == ex.clockAtHalf && ex.Clock > 0 {
				ex.report(&Violation{Kind: "deadlock", Msg: fmt.Sprintf("livelock: %d instructions executed while virtual time stood still (a goroutine spins without blocking), running: g%d %s @ %s", ex.MaxSteps/2, g.id, g.name, ex.stackString(g))})
			}
			panic(pathEnd{"unwind: instruction budget exceeded"})
		}
		if ex.TraceW != nil {
			fmt.Fprintf(ex.TraceW, "g%d %s: %s\n", g.id, fr.fn.Name(), instrString(instr))
		}
		yield := ex.visitRetry(g, fr, instr)
		if g.status != gReady {
			return
		}
		if yield {
			return
		}
	}
}

// visitRetry runs one instruction; if it needs a symbolic index to be
// concrete (array of pointers/structs), the index is enumerated over its
// feasible values (one path each) and the instruction is retried.
func (ex *Exec) visitRetry(g *Goroutine, fr *Frame, instr ssa.Instruction) (yield bool) {
	for tries := 0; ; tries++ {
		var need *Term
		func() {
			defer func() {
				if r := recover(); r != nil {
					if nc, ok := r.(needConcretize); ok && tries < 8 {
						need = nc.t
						return
					}
					panic(r)
				}
			}()
			yield = ex.visit(g, fr, instr)
		}()
		if need == nil {
			return yield
		}
		v := ex.concretize(need, "index")
		ex.concrete[need.ID] = v
	}
}

func instrString(in ssa.Instruction) string {
	if v, ok := in.(ssa.Value); ok {
		return v.Name() + " = " + in.String()
	}
	return in.String()
}

// visit executes one instruction; it returns true if the goroutine should
// yield to the scheduler (scheduling point).
func (ex *Exec) visit(g *Goroutine, fr *Frame, instr ssa.Instruction) (yield bool) {
	switch in := instr.(type) {
	case *ssa.DebugRef:
	case *ssa.UnOp:
		v := ex.unop(g, fr, in)
		if g.status == gBlocked {
			return true
		}
		ex.set(fr, in, v)
		if in.Op == token.ARROW {
			fr.pc++
			return true
		}
	case *ssa.BinOp:
		ex.set(fr, in, ex.binop(in.Op, in.X.Type(), ex.get(fr, in.X), ex.get(fr, in.Y), in.Y.Type()))
	case *ssa.Call:
		return ex.doCall(g, fr, in, &in.Call, fr.info.idx[in])
	case *ssa.ChangeInterface:
		ex.set(fr, in, ex.get(fr, in.X))
	case *ssa.ChangeType:
		ex.set(fr, in, ex.get(fr, in.X))
	case *ssa.Convert:
		ex.set(fr, in, ex.conv(in.Type(), in.X.Type(), ex.get(fr, in.X)))
	case *ssa.SliceToArrayPointer:
		ex.set(fr, in, ex.sliceToArrayPointer(in, ex.get(fr, in.X).(Slice)))
	case *ssa.MakeInterface:
		ex.set(fr, in, Iface{T: in.X.Type(), V: ex.get(fr, in.X)})
	case *ssa.Extract:
		ex.set(fr, in, ex.get(fr, in.Tuple).(Tuple)[in.Index])
	case *ssa.Slice:
		ex.set(fr, in, ex.sliceOp(fr, in))
	case *ssa.Return:
		var res Value
		switch len(in.Results) {
		case 0:
		case 1:
			res = ex.get(fr, in.Results[0])
		default:
			tu := make(Tuple, len(in.Results))
			for i, r := range in.Results {
				tu[i] = ex.get(fr, r)
			}
			res = tu
		}
		ex.doReturn(g, fr, res)
		return false
	case *ssa.RunDefers:
		if len(fr.defers) > 0 {
			d := fr.defers[len(fr.defers)-1]
			fr.defers = fr.defers[:len(fr.defers)-1]
			// pc stays at RunDefers; it is re-executed after the deferred call returns
			ex.invoke(g, fr, d.fn, d.args, -1, &callSite{fn: fr.fn, instr: in, pos: in.Pos()})
			return false
		}
	case *ssa.Panic:
		v := ex.get(fr, in.X)
		ex.goPanic(g, fr, fmt.Sprintf("panic: %s", ex.show(v)), in.Pos())
	case *ssa.Send:
		ch := ex.get(fr, in.Chan).(*Chan)
		ex.chanSend(g, ch, ex.get(fr, in.X), in.Pos())
		if g.status == gBlocked {
			return true
		}
		fr.pc++
		return true
	case *ssa.Store:
		ex.store(ex.get(fr, in.Addr).(Ptr), ex.get(fr, in.Val), in.Pos(), g)
	case *ssa.If:
		cond := ex.get(fr, in.Cond).(*Term)
		if !cond.IsConst() && ex.ifConvert(g, fr, cond) {
			return false
		}
		succ := 1
		if ex.branch(cond, in.Pos()) {
			succ = 0
		}
		fr.prev, fr.block = fr.block, fr.block.Succs[succ]
		fr.pc = 0
		ex.phis(fr)
		return false
	case *ssa.Jump:
		fr.prev, fr.block = fr.block, fr.block.Succs[0]
		fr.pc = 0
		ex.phis(fr)
		return false
	case *ssa.Defer:
		fn, args := ex.prepareCall(fr, &in.Call)
		fr.defers = append(fr.defers, &deferred{fn: fn, args: args, instr: in})
	case *ssa.Go:
		fn, args := ex.prepareCall(fr, &in.Call)
		ex.spawn(g, fn, args, in.Pos())
		fr.pc++
		return ex.RaceMode
	case *ssa.MakeChan:
		sz := ex.toInt64(ex.get(fr, in.Size).(*Term), in.Size.Type())
		ex.check(g, fr, ex.C.Cmp(OSle, ex.i64(0), sz), "makechan: size out of range", in.Pos())
		ex.set(fr, in, ex.newChan(in.Type().Underlying().(*types.Chan).Elem(), sz))
	case *ssa.Alloc:
		slot := new(Value)
		*slot = ex.zero(in.Type().Underlying().(*types.Pointer).Elem())
		ex.set(fr, in, Ptr{Slot: slot})
	case *ssa.MakeSlice:
		ex.set(fr, in, ex.makeSlice(in, ex.get(fr, in.Len).(*Term), ex.get(fr, in.Cap).(*Term)))
	case *ssa.MakeMap:
		mt := in.Type().Underlying().(*types.Map)
		ex.mapSeq++
		ex.set(fr, in, &Map{KeyT: mt.Key(), ValT: mt.Elem(), id: ex.mapSeq})
	case *ssa.Range:
		ex.set(fr, in, ex.rangeIter(ex.get(fr, in.X), in.X.Type()))
	case *ssa.Next:
		ex.set(fr, in, ex.next(ex.get(fr, in.Iter), in))
	case *ssa.FieldAddr:
		p := ex.get(fr, in.X).(Ptr)
		ex.set(fr, in, ex.fieldAddr(g, fr, p, in.Field, in.Pos()))
	case *ssa.Field:
		ex.set(fr, in, copyVal(ex.get(fr, in.X).(Struct)[in.Field]))
	case *ssa.IndexAddr:
		ex.set(fr, in, ex.indexAddr(g, fr, in))
	case *ssa.Index:
		ex.set(fr, in, ex.index(g, fr, in))
	case *ssa.Lookup:
		ex.set(fr, in, ex.lookup(g, fr, in))
	case *ssa.MapUpdate:
		m := ex.get(fr, in.Map).(*Map)
		if m == nil {
			ex.goPanic(g, fr, "assignment to entry in nil map", in.Pos())
		}
		ex.mapUpdate(m, ex.get(fr, in.Key), ex.get(fr, in.Value))
	case *ssa.TypeAssert:
		ex.set(fr, in, ex.typeAssert(g, fr, in, ex.get(fr, in.X).(Iface)))
	case *ssa.MakeClosure:
		var env []Value
		for _, b := range in.Bindings {
			env = append(env, ex.get(fr, b))
		}
		ex.set(fr, in, &Closure{Fn: in.Fn.(*ssa.Function), Env: env})
	case *ssa.Phi:
		panic("unexpected phi")
	case *ssa.Select:
		return ex.doSelect(g, fr, in)
	default:
		panic(unsupported("instruction %T: %s", instr, instr))
	}
	fr.pc++
	return false
}

func (ex *Exec) phis(fr *Frame) {
	// evaluate all phis of the new block simultaneously
	var idx int = -1
	for i, p := range fr.block.Preds {
		if p == fr.prev {
			idx = i
			break
		}
	}
	var vals []Value
	n := 0
	for _, in := range fr.block.Instrs {
		phi, ok := in.(*ssa.Phi)
		if !ok {
			break
		}
		vals = append(vals, ex.get(fr, phi.Edges[idx]))
		n++
	}
	for i := 0; i < n; i++ {
		ex.set(fr, fr.block.Instrs[i].(*ssa.Phi), vals[i])
	}
	fr.pc = n
}

func (ex *Exec) doReturn(g *Goroutine, fr *Frame, res Value) {
	g.stack = g.stack[:len(g.stack)-1]
	if fr.onReturn != nil {
		fr.onReturn(res)
	}
	if len(g.stack) == 0 {
		g.status = gDone
		ex.goroutineExit(g, res)
		return
	}
	caller := g.stack[len(g.stack)-1]
	if fr.retTo >= 0 {
		caller.locals[fr.retTo] = res
	}
	if fr.retTo != -2 { // -2: caller re-executes its current instruction (RunDefers)
		// the call instruction of the caller is complete
	}
	if _, isRD := caller.block.Instrs[caller.pc].(*ssa.RunDefers); isRD {
		return // re-execute RunDefers
	}
	caller.pc++
}

// goPanic terminates the path with a panic violation (Go run-time panic in the
// code under test). recover() is not modelled: any panic is terminal.
func (ex *Exec) goPanic(g *Goroutine, fr *Frame, msg string, pos token.Pos) {
	if ex.replaying() {
		// A child path re-executes its parent's decisions and must behave like
		// it until the prefix is used up; a panic before that point means the
		// re-execution diverged (nothing would report it otherwise).
		ex.inconclusive(fmt.Sprintf("panic '%s' at %s while still replaying the decision prefix (pos %d of %d, trail %v): re-execution diverged from the parent path", msg, ex.where(fr, pos), ex.pos, len(ex.prefix), ex.trail))
	}
	nv, ni := len(ex.Violations), len(ex.Inconcl)
	ex.report(&Violation{Kind: "panic", Msg: msg, Where: ex.where(fr, pos)})
	if !ex.replaying() && len(ex.Violations) == nv && len(ex.Inconcl) == ni {
		// the full path condition has no model: the path had become infeasible
		// earlier (after a check whose failing side was the only feasible one)
		panic(pathEnd{"infeasible"})
	}
	panic(pathEnd{"panic: " + msg})
}

func (ex *Exec) where(fr *Frame, pos token.Pos) string {
	p := ex.P.Fset.Position(pos)
	if fr != nil {
		return fmt.Sprintf("%s (%s:%d)", fr.fn.String(), shortFile(p.Filename), p.Line)
	}
	return fmt.Sprintf("%s:%d", shortFile(p.Filename), p.Line)
}

func shortFile(f string) string {
	if i := strings.LastIndex(f, "/"); i >= 0 {
		if j := strings.LastIndex(f[:i], "/"); j >= 0 {
			return f[j+1:]
		}
	}
	return f
}

func (ex *Exec) stackString(g *Goroutine) string {
	var sb strings.Builder
	for i := len(g.stack) - 1; i >= 0; i-- {
		fr := g.stack[i]
		pos := token.NoPos
		if fr.pc < len(fr.block.Instrs) {
			pos = fr.block.Instrs[fr.pc].Pos()
		}
		sb.WriteString(ex.where(fr, pos))
		sb.WriteString(" <- ")
	}
	return sb.String()
}

// ---------------------------------------------------------------------------
// run-time checks

// check asserts a run-time condition (bounds, nil, division). If it can fail
// under the current path condition, a panic witness is reported. Execution
// continues under the assumption that the check passed.
func (ex *Exec) check(g *Goroutine, fr *Frame, ok *Term, what string, pos token.Pos) {
	if ex.guard != nil {
		ok = ex.C.Implies(ex.guard, ok)
	}
	if ok.IsTrue() {
		return
	}
	if ok.IsFalse() {
		ex.goPanic(g, fr, what, pos)
	}
	ex.findViolation(ex.C.Not(ok), "panic", what, ex.where(fr, pos))
	ex.decide(0, 1, "check")
	ex.addPC(ok)
}

// ---------------------------------------------------------------------------
// memory

func (ex *Exec) load(p Ptr, pos token.Pos, g *Goroutine) Value {
	if p.Slot != nil {
		if ex.RaceMode {
			ex.raceAccess(g, p.Slot, false, pos)
		}
		return copyVal(*p.Slot)
	}
	if p.Arr != nil {
		if ex.RaceMode && p.Arr.isDense() {
			if k, ok := constInt(p.Idx); ok {
				ex.raceAccess(g, &p.Arr.Dense[k], false, pos)
			}
		}
		return ex.loadElem(p.Arr, p.Idx)
	}
	if p.Tag != nil {
		// model object (ideal key): its "value" is the object itself
		return &Opaque{Kind: "deref", Data: p.Tag}
	}
	ex.goPanic(g, ex.topFrame(g), "nil pointer dereference", pos)
	return nil
}

func (ex *Exec) store(p Ptr, v Value, pos token.Pos, g *Goroutine) {
	if ex.guard != nil {
		old := ex.load(p, pos, g)
		m, ok := ex.merge(ex.guard, v, old)
		if !ok {
			panic(unsupported("guarded store of unmergeable values"))
		}
		v = m
	}
	if p.Slot != nil {
		if ex.RaceMode {
			ex.raceAccess(g, p.Slot, true, pos)
		}
		storeInto(p.Slot, v)
		return
	}
	if p.Arr != nil {
		if ex.RaceMode && p.Arr.isDense() {
			if k, ok := constInt(p.Idx); ok {
				ex.raceAccess(g, &p.Arr.Dense[k], true, pos)
			}
		}
		ex.storeElem(p.Arr, p.Idx, v)
		return
	}
	ex.goPanic(g, ex.topFrame(g), "nil pointer dereference (store)", pos)
}

func (ex *Exec) topFrame(g *Goroutine) *Frame {
	if g == nil || len(g.stack) == 0 {
		return nil
	}
	return g.stack[len(g.stack)-1]
}

func (ex *Exec) fieldAddr(g *Goroutine, fr *Frame, p Ptr, field int, pos token.Pos) Ptr {
	if p.IsNil() {
		ex.goPanic(g, fr, "nil pointer dereference (field address)", pos)
	}
	if p.Slot != nil {
		s, ok := (*p.Slot).(Struct)
		if !ok {
			panic(fmt.Sprintf("fieldAddr on non-struct %T at %s", *p.Slot, ex.where(fr, pos)))
		}
		return Ptr{Slot: &s[field]}
	}
	if p.Arr != nil && p.Arr.isDense() {
		if k, ok := ex.constOf(p.Idx); ok {
			s := p.Arr.Dense[k].(Struct)
			return Ptr{Slot: &s[field]}
		}
		panic(needConcretize{p.Idx})
	}
	panic(unsupported("fieldAddr through opaque/functional pointer"))
}

func (ex *Exec) indexAddr(g *Goroutine, fr *Frame, in *ssa.IndexAddr) Ptr {
	x := ex.get(fr, in.X)
	idx := ex.C.SExt(ex.get(fr, in.Index).(*Term), 64)
	if !isSigned(in.Index.Type()) {
		idx = ex.C.ZExt(ex.get(fr, in.Index).(*Term), 64)
	}
	switch x := x.(type) {
	case Slice:
		ex.check(g, fr, ex.C.Cmp(OUlt, idx, x.lenOr0(ex)), "index out of range", in.Pos())
		return ex.elemPtr(x.Arr, ex.C.Bin(OAdd, x.Off, idx))
	case Ptr: // pointer to array
		if x.IsNil() {
			ex.goPanic(g, fr, "nil pointer dereference (index address)", in.Pos())
		}
		at := in.X.Type().Underlying().(*types.Pointer).Elem().Underlying().(*types.Array)
		ex.check(g, fr, ex.C.Cmp(OUlt, idx, ex.i64(at.Len())), "index out of range", in.Pos())
		var arr Array
		if x.Slot != nil {
			if big, ok := bigArrayOf(*x.Slot); ok {
				return Ptr{Arr: big, Idx: idx}
			}
			arr = (*x.Slot).(Array)
		} else if x.Arr != nil && x.Arr.isDense() {
			k, ok := constInt(x.Idx)
			if !ok {
				panic(needConcretize{x.Idx})
			}
			arr = x.Arr.Dense[k].(Array)
		} else {
			panic(unsupported("indexAddr through functional pointer"))
		}
		if k, ok := constInt(idx); ok {
			return Ptr{Slot: &arr[k]}
		}
		return Ptr{Arr: ex.arrOfArray(arr, at.Elem()), Idx: idx}
	}
	panic(fmt.Sprintf("indexAddr: %T", x))
}

func (s Slice) lenOr0(ex *Exec) *Term {
	if s.Arr == nil {
		return ex.i64(0)
	}
	return s.Len
}
func (s Slice) capOr0(ex *Exec) *Term {
	if s.Arr == nil {
		return ex.i64(0)
	}
	return s.Cap
}

func (ex *Exec) elemPtr(a *ArrObj, idx *Term) Ptr {
	if a.isDense() {
		if k, ok := ex.constOf(idx); ok && k >= 0 && int(k) < len(a.Dense) {
			return Ptr{Slot: &a.Dense[k]}
		}
	}
	return Ptr{Arr: a, Idx: idx}
}

func (ex *Exec) index(g *Goroutine, fr *Frame, in *ssa.Index) Value {
	x := ex.get(fr, in.X)
	idx := ex.C.SExt(ex.get(fr, in.Index).(*Term), 64)
	if !isSigned(in.Index.Type()) {
		idx = ex.C.ZExt(ex.get(fr, in.Index).(*Term), 64)
	}
	switch x := x.(type) {
	case *ArrObj:
		ex.check(g, fr, ex.C.Cmp(OUlt, idx, x.N), "index out of range", in.Pos())
		return ex.loadElem(x, idx)
	case Array:
		ex.check(g, fr, ex.C.Cmp(OUlt, idx, ex.i64(int64(len(x)))), "index out of range", in.Pos())
		return copyVal(ex.readDense(x, idx, in.Type()))
	case string:
		ex.check(g, fr, ex.C.Cmp(OUlt, idx, ex.i64(int64(len(x)))), "string index out of range", in.Pos())
		if k, ok := constInt(idx); ok {
			return ex.C.Const(BV(8), uint64(x[k]))
		}
		var res *Term = ex.C.Const(BV(8), 0)
		for i := len(x) - 1; i >= 0; i-- {
			res = ex.C.Ite(ex.C.Eq(idx, ex.i64(int64(i))), ex.C.Const(BV(8), uint64(x[i])), res)
		}
		return res
	}
	panic(fmt.Sprintf("index: %T", x))
}

func (ex *Exec) makeSlice(in *ssa.MakeSlice, ln, cp *Term) Slice {
	elem := in.Type().Underlying().(*types.Slice).Elem()
	l64 := ex.toInt64(ln, in.Len.Type())
	c64 := ex.toInt64(cp, in.Cap.Type())
	g := ex.cur
	fr := ex.topFrame(g)
	ex.check(g, fr, ex.C.Cmp(OSle, ex.i64(0), l64), "makeslice: len out of range", in.Pos())
	ex.check(g, fr, ex.C.Cmp(OSle, l64, c64), "makeslice: cap out of range", in.Pos())
	return ex.allocSlice(elem, l64, c64)
}

func (ex *Exec) allocSlice(elem types.Type, l64, c64 *Term) Slice {
	if k, ok := constInt(c64); ok {
		if k > ex.MaxDense {
			// large concrete buffers are kept functional
			return Slice{Arr: ex.newSym(elem, c64, symZero{}), Off: ex.i64(0), Len: l64, Cap: c64}
		}
		return Slice{Arr: ex.newDense(elem, int(k)), Off: ex.i64(0), Len: l64, Cap: c64}
	}
	if !scalarType(elem) && ex.Params["@concmake"] != 0 {
		// a functional array cannot hold pointers or aggregates that are read
		// back at a symbolic index: on request (run parameter @concmake, for
		// harnesses in which a packet chooses the length) the length is
		// enumerated, one path per feasible value
		k := ex.concretize(c64, "capacity of a slice of non-scalar elements")
		ck := ex.i64(k)
		if _, ok := constInt(l64); !ok {
			l64 = ex.i64(ex.concretize(l64, "length of a slice of non-scalar elements"))
		}
		if k > ex.MaxDense {
			panic(unsupported(fmt.Sprintf("slice of %d non-scalar elements", k)))
		}
		return Slice{Arr: ex.newDense(elem, int(k)), Off: ex.i64(0), Len: l64, Cap: ck}
	}
	return Slice{Arr: ex.newSym(elem, c64, symZero{}), Off: ex.i64(0), Len: l64, Cap: c64}
}

func (ex *Exec) toInt64(t *Term, typ types.Type) *Term {
	if isSigned(typ) {
		return ex.C.SExt(t, 64)
	}
	return ex.C.ZExt(t, 64)
}

func (ex *Exec) sliceOp(fr *Frame, in *ssa.Slice) Value {
	g := ex.cur
	x := ex.get(fr, in.X)
	c := ex.C
	var lo, hi, max *Term
	if in.Low != nil {
		lo = ex.toInt64(ex.get(fr, in.Low).(*Term), in.Low.Type())
	}
	if in.High != nil {
		hi = ex.toInt64(ex.get(fr, in.High).(*Term), in.High.Type())
	}
	if in.Max != nil {
		max = ex.toInt64(ex.get(fr, in.Max).(*Term), in.Max.Type())
	}
	if lo == nil {
		lo = ex.i64(0)
	}
	switch x := x.(type) {
	case string:
		l := int64(len(x))
		if hi == nil {
			hi = ex.i64(l)
		}
		ex.check(g, fr, c.And(c.Cmp(OUle, lo, hi), c.Cmp(OUle, hi, ex.i64(l))), "slice bounds out of range (string)", in.Pos())
		lk, ok1 := constInt(lo)
		hk, ok2 := constInt(hi)
		if !ok1 || !ok2 {
			panic(unsupported("string slicing with symbolic bounds"))
		}
		return x[lk:hk]
	case Slice:
		ln, cp := x.lenOr0(ex), x.capOr0(ex)
		if hi == nil {
			hi = ln
		}
		if max == nil {
			max = cp
		}
		ok := c.AndN(c.Cmp(OUle, lo, hi), c.Cmp(OUle, hi, max), c.Cmp(OUle, max, cp))
		ex.check(g, fr, ok, "slice bounds out of range", in.Pos())
		if x.Arr == nil {
			return Slice{}
		}
		return Slice{Arr: x.Arr, Off: c.Bin(OAdd, x.Off, lo), Len: c.Bin(OSub, hi, lo), Cap: c.Bin(OSub, max, lo)}
	case Ptr: // pointer to array
		if x.IsNil() {
			ex.goPanic(g, fr, "nil pointer dereference (slice of array pointer)", in.Pos())
		}
		at := in.X.Type().Underlying().(*types.Pointer).Elem().Underlying().(*types.Array)
		n := ex.i64(at.Len())
		if hi == nil {
			hi = n
		}
		if max == nil {
			max = n
		}
		ok := c.AndN(c.Cmp(OUle, lo, hi), c.Cmp(OUle, hi, max), c.Cmp(OUle, max, n))
		ex.check(g, fr, ok, "slice bounds out of range", in.Pos())
		var arr Array
		if x.Slot != nil {
			if big, ok := bigArrayOf(*x.Slot); ok {
				return Slice{Arr: big, Off: lo, Len: c.Bin(OSub, hi, lo), Cap: c.Bin(OSub, max, lo)}
			}
			arr = (*x.Slot).(Array)
		} else {
			k, okc := constInt(x.Idx)
			if !x.Arr.isDense() {
				panic(unsupported("slice of array reached through symbolic pointer"))
			}
			if !okc {
				// &table[i][:] with a symbolic i (a table of fixed-size
				// arrays): one path per feasible index
				k = ex.concretize(x.Idx, "index of an array of arrays")
			}
			arr = x.Arr.Dense[k].(Array)
		}
		return Slice{Arr: ex.arrOfArray(arr, at.Elem()), Off: lo, Len: c.Bin(OSub, hi, lo), Cap: c.Bin(OSub, max, lo)}
	}
	panic(fmt.Sprintf("sliceOp: %T", x))
}

func (ex *Exec) sliceToArrayPointer(in *ssa.SliceToArrayPointer, s Slice) Value {
	at := in.Type().Underlying().(*types.Pointer).Elem().Underlying().(*types.Array)
	g := ex.cur
	ex.check(g, ex.topFrame(g), ex.C.Cmp(OUle, ex.i64(at.Len()), s.lenOr0(ex)), "slice too short for array conversion", in.Pos())
	if s.Arr == nil {
		return Ptr{}
	}
	off, ok := constInt(s.Off)
	if !ok || !s.Arr.isDense() {
		panic(unsupported("slice-to-array-pointer with symbolic offset"))
	}
	arr := Array(s.Arr.Dense[off : off+at.Len() : off+at.Len()])
	slot := new(Value)
	*slot = arr
	if at.Len() > 0 {
		ex.arrAlias[&arr[0]] = &ArrObj{Elem: at.Elem(), Dense: []Value(arr)}
	}
	return Ptr{Slot: slot}
}

// ---------------------------------------------------------------------------
// operators

func (ex *Exec) unop(g *Goroutine, fr *Frame, in *ssa.UnOp) Value {
	x := ex.get(fr, in.X)
	switch in.Op {
	case token.MUL: // load
		return ex.load(x.(Ptr), in.Pos(), g)
	case token.ARROW:
		v, ok := ex.chanRecv(g, x.(*Chan), in.Pos())
		if g.status == gBlocked {
			return nil
		}
		if in.CommaOk {
			return Tuple{v, ok}
		}
		return v
	case token.NOT:
		return ex.C.Not(x.(*Term))
	case token.SUB:
		t := x.(*Term)
		if t.Sort.K == KFP {
			return ex.C.FPNeg(t)
		}
		return ex.C.Un(ONeg, t)
	case token.XOR:
		return ex.C.Un(ONot, x.(*Term))
	}
	panic(unsupported("unop %s", in.Op))
}

func (ex *Exec) binop(op token.Token, t types.Type, x, y Value, yt types.Type) Value {
	c := ex.C
	switch op {
	case token.EQL:
		return ex.eqValue(x, y)
	case token.NEQ:
		return c.Not(ex.eqValue(x, y))
	}
	switch a := x.(type) {
	case string:
		b, ok := y.(string)
		if !ok {
			panic(unsupported("string binop with symbolic string"))
		}
		switch op {
		case token.ADD:
			return a + b
		case token.LSS:
			return c.Bool(a < b)
		case token.LEQ:
			return c.Bool(a <= b)
		case token.GTR:
			return c.Bool(a > b)
		case token.GEQ:
			return c.Bool(a >= b)
		}
	case *Term:
		b := y.(*Term)
		if a.Sort.K == KFP {
			switch op {
			case token.ADD:
				return c.FPBin(OFPAdd, a, b)
			case token.SUB:
				return c.FPBin(OFPSub, a, b)
			case token.MUL:
				return c.FPBin(OFPMul, a, b)
			case token.QUO:
				return c.FPBin(OFPDiv, a, b)
			case token.LSS:
				return c.FPCmp(OFPLt, a, b)
			case token.LEQ:
				return c.FPCmp(OFPLe, a, b)
			case token.GTR:
				return c.FPCmp(OFPLt, b, a)
			case token.GEQ:
				return c.FPCmp(OFPLe, b, a)
			}
			panic(unsupported("float binop %s", op))
		}
		if a.Sort.K == KBool {
			switch op {
			case token.AND, token.LAND:
				return c.And(a, b)
			case token.OR, token.LOR:
				return c.Or(a, b)
			}
			panic(unsupported("bool binop %s", op))
		}
		signed := isSigned(t)
		switch op {
		case token.ADD:
			return c.Bin(OAdd, a, b)
		case token.SUB:
			return c.Bin(OSub, a, b)
		case token.MUL:
			return c.Bin(OMul, a, b)
		case token.QUO, token.REM:
			g := ex.cur
			ex.check(g, ex.topFrame(g), c.Not(c.Eq(b, c.Const(b.Sort, 0))), "integer divide by zero", token.NoPos)
			if op == token.QUO {
				if signed {
					return c.Bin(OSDiv, a, b)
				}
				return c.Bin(OUDiv, a, b)
			}
			if signed {
				return c.Bin(OSRem, a, b)
			}
			return c.Bin(OURem, a, b)
		case token.AND:
			return c.Bin(OAnd, a, b)
		case token.OR:
			return c.Bin(OOr, a, b)
		case token.XOR:
			return c.Bin(OXor, a, b)
		case token.AND_NOT:
			return c.Bin(OAnd, a, c.Un(ONot, b))
		case token.SHL, token.SHR:
			// shift count: any integer type; saturate to operand width
			w := a.Sort.W
			var cnt *Term
			if isSigned(yt) {
				g := ex.cur
				ex.check(g, ex.topFrame(g), c.Cmp(OSle, c.Const(b.Sort, 0), b), "negative shift amount", token.NoPos)
			}
			if b.Sort.W > w {
				big := c.Cmp(OUle, c.Const(b.Sort, uint64(w)), b)
				cnt = c.Ite(big, c.Const(BV(w), uint64(w)), c.Extract(b, w-1, 0))
			} else {
				cnt = c.ZExt(b, w)
			}
			if op == token.SHL {
				return c.Bin(OShl, a, cnt)
			}
			if signed {
				return c.Bin(OAShr, a, cnt)
			}
			return c.Bin(OLShr, a, cnt)
		case token.LSS:
			if signed {
				return c.Cmp(OSlt, a, b)
			}
			return c.Cmp(OUlt, a, b)
		case token.LEQ:
			if signed {
				return c.Cmp(OSle, a, b)
			}
			return c.Cmp(OUle, a, b)
		case token.GTR:
			if signed {
				return c.Cmp(OSlt, b, a)
			}
			return c.Cmp(OUlt, b, a)
		case token.GEQ:
			if signed {
				return c.Cmp(OSle, b, a)
			}
			return c.Cmp(OUle, b, a)
		}
	}
	panic(unsupported("binop %s on %T", op, x))
}

func (ex *Exec) conv(dst, src types.Type, x Value) Value {
	c := ex.C
	ud, us := dst.Underlying(), src.Underlying()
	switch ud := ud.(type) {
	case *types.Basic:
		switch {
		case ud.Kind() == types.UnsafePointer:
			return x
		case ud.Info()&types.IsString != 0:
			// from integer, []byte, []rune or string
			switch v := x.(type) {
			case string:
				return v
			case *SymStr:
				return v
			case *Term:
				if k, ok := constInt(v); ok {
					return string(rune(k))
				}
				panic(unsupported("string(symbolic rune)"))
			case Slice:
				bs, ok := ex.concreteBytes(v)
				if !ok {
					if _, okl := ex.constOf(v.lenOr0(ex)); okl {
						if e, isB := us.(*types.Slice).Elem().Underlying().(*types.Basic); isB && e.Kind() == types.Uint8 {
							return &SymStr{Bytes: append([]*Term{}, ex.sliceTerms(v)...)}
						}
					}
					panic(unsupported("string([]byte) with symbolic contents"))
				}
				if e, isB := us.(*types.Slice).Elem().Underlying().(*types.Basic); isB && e.Kind() == types.Int32 {
					panic(unsupported("string([]rune)"))
				}
				return string(bs)
			}
		case ud.Info()&types.IsInteger != 0:
			t := x.(*Term)
			w := basicWidth(ud)
			if t.Sort.K == KFP {
				return c.FPToInt(t, isSigned(dst), w)
			}
			if isSigned(src) {
				return c.SExt(t, w)
			}
			return c.ZExt(t, w)
		case ud.Info()&types.IsFloat != 0:
			t := x.(*Term)
			w := basicWidth(ud)
			if t.Sort.K == KFP {
				return c.FPFromFP(t, w)
			}
			return c.FPFromInt(t, isSigned(src), w)
		case ud.Info()&types.IsBoolean != 0:
			return x
		}
	case *types.Slice:
		// string -> []byte / []rune
		if ss, ok := x.(*SymStr); ok && ss.Table == nil {
			return ex.termsSlice(append([]*Term{}, ss.Bytes...))
		}
		if s, ok := x.(string); ok {
			if e := ud.Elem().Underlying().(*types.Basic); e.Kind() == types.Uint8 {
				a := ex.newDense(ud.Elem(), len(s))
				for i := 0; i < len(s); i++ {
					a.Dense[i] = c.Const(BV(8), uint64(s[i]))
				}
				return Slice{Arr: a, Off: ex.i64(0), Len: ex.i64(int64(len(s))), Cap: ex.i64(int64(len(s)))}
			}
			panic(unsupported("[]rune(string)"))
		}
		return x
	case *types.Pointer:
		return x // unsafe.Pointer -> *T
	}
	_ = us
	panic(unsupported("conversion %s -> %s", src, dst))
}

// concreteBytes extracts the bytes of a slice if all are concrete.
func (ex *Exec) concreteBytes(s Slice) ([]byte, bool) {
	if s.Arr == nil {
		return []byte{}, true
	}
	off, ok1 := constInt(s.Off)
	ln, ok2 := constInt(s.Len)
	if !ok1 || !ok2 {
		return nil, false
	}
	out := make([]byte, ln)
	for i := int64(0); i < ln; i++ {
		v := ex.loadElem(s.Arr, ex.i64(off+i))
		t, ok := v.(*Term)
		if !ok || !t.IsConst() {
			return nil, false
		}
		out[i] = byte(t.Val)
	}
	return out, true
}

func (ex *Exec) bytesValue(b []byte) Slice {
	et := types.Typ[types.Uint8]
	a := ex.newDense(et, len(b))
	for i := range b {
		a.Dense[i] = ex.C.Const(BV(8), uint64(b[i]))
	}
	return Slice{Arr: a, Off: ex.i64(0), Len: ex.i64(int64(len(b))), Cap: ex.i64(int64(len(b)))}
}

func (ex *Exec) typeAssert(g *Goroutine, fr *Frame, in *ssa.TypeAssert, itf Iface) Value {
	var ok bool
	var v Value
	if it, isI := in.AssertedType.Underlying().(*types.Interface); isI {
		if itf.T != nil {
			ok = types.Implements(itf.T, it) || ex.nativeImplements(itf, it)
		}
		if ok {
			v = itf
		}
	} else {
		if itf.T != nil && types.Identical(itf.T, in.AssertedType) {
			ok = true
			v = itf.V
		}
	}
	if in.CommaOk {
		if !ok {
			v = ex.zero(in.AssertedType)
		}
		return Tuple{v, ex.C.Bool(ok)}
	}
	if !ok {
		ex.goPanic(g, fr, fmt.Sprintf("interface conversion: %s is not %s", typeString(itf.T), in.AssertedType), in.Pos())
	}
	return v
}

func (ex *Exec) show(v Value) string {
	switch v := v.(type) {
	case string:
		return v
	case *Term:
		return v.String()
	case Iface:
		if v.T == nil {
			return "nil"
		}
		if p, ok := v.V.(Ptr); ok && p.Slot != nil {
			if s, ok := (*p.Slot).(Struct); ok && len(s) > 0 {
				if str, ok := s[0].(string); ok {
					return typeString(v.T) + "{" + str + "}"
				}
			}
		}
		return typeString(v.T) + "(" + ex.show(v.V) + ")"
	}
	return fmt.Sprintf("%T", v)
}

// ---------------------------------------------------------------------------
// Guarded if-conversion: a symbolic branch whose arms are call-free straight
// line blocks joining at a common successor (triangle or diamond) is not
// forked. The arm is executed under its guard c: stores become
// *p = ite(c, v, *p), run-time checks become c => check, the phis at the join
// become ite. This keeps bit-by-bit codecs (one data-dependent `if bit` per
// bit) on a single path.

func simpleArm(b *ssa.BasicBlock) bool {
	if len(b.Preds) != 1 || len(b.Instrs) == 0 || len(b.Instrs) > 24 {
		return false
	}
	for i, in := range b.Instrs {
		last := i == len(b.Instrs)-1
		switch x := in.(type) {
		case *ssa.Jump:
			if !last {
				return false
			}
		case *ssa.BinOp, *ssa.Convert, *ssa.ChangeType, *ssa.IndexAddr, *ssa.FieldAddr, *ssa.DebugRef, *ssa.Field, *ssa.Index, *ssa.Slice:
		case *ssa.Store:
			// only scalar stores can be guarded (merged with ite)
			if !scalarType(x.Val.Type()) {
				return false
			}
		case *ssa.UnOp:
			if x.Op == token.ARROW {
				return false
			}
		default:
			return false
		}
		if last {
			if _, ok := in.(*ssa.Jump); !ok {
				return false
			}
		}
	}
	return true
}

func scalarType(t types.Type) bool {
	b, ok := t.Underlying().(*types.Basic)
	return ok && b.Info()&(types.IsInteger|types.IsBoolean|types.IsFloat) != 0
}

func (ex *Exec) ifConvert(g *Goroutine, fr *Frame, cond *Term) bool {
	if ex.NoIfConv {
		return false
	}
	b := fr.block
	T, F := b.Succs[0], b.Succs[1]
	type arm struct {
		blk   *ssa.BasicBlock
		guard *Term
	}
	var arms []arm
	var join *ssa.BasicBlock
	switch {
	case simpleArm(T) && simpleArm(F) && T.Succs[0] == F.Succs[0]:
		arms = []arm{{T, cond}, {F, ex.C.Not(cond)}}
		join = T.Succs[0]
	case simpleArm(T) && T.Succs[0] == F:
		arms = []arm{{T, cond}}
		join = F
	case simpleArm(F) && F.Succs[0] == T:
		arms = []arm{{F, ex.C.Not(cond)}}
		join = T
	default:
		return false
	}
	// the join's phis must only merge scalars
	for _, in := range join.Instrs {
		phi, ok := in.(*ssa.Phi)
		if !ok {
			break
		}
		if !scalarType(phi.Type()) {
			return false
		}
	}
	saved := ex.guard
	for _, a := range arms {
		if saved != nil {
			ex.guard = ex.C.And(saved, a.guard)
		} else {
			ex.guard = a.guard
		}
		for _, in := range a.blk.Instrs[:len(a.blk.Instrs)-1] {
			ex.Steps++
			ex.visit(g, fr, in)
		}
	}
	ex.guard = saved
	// phis at the join
	idxOf := func(pred *ssa.BasicBlock) int {
		for i, p := range join.Preds {
			if p == pred {
				return i
			}
		}
		return -1
	}
	var vals []Value
	n := 0
	for _, in := range join.Instrs {
		phi, ok := in.(*ssa.Phi)
		if !ok {
			break
		}
		var vt, vf Value
		if len(arms) == 2 {
			vt = ex.get(fr, phi.Edges[idxOf(T)])
			vf = ex.get(fr, phi.Edges[idxOf(F)])
		} else if arms[0].blk == T {
			vt = ex.get(fr, phi.Edges[idxOf(T)])
			vf = ex.get(fr, phi.Edges[idxOf(b)])
		} else {
			vt = ex.get(fr, phi.Edges[idxOf(b)])
			vf = ex.get(fr, phi.Edges[idxOf(F)])
		}
		m, ok := ex.merge(cond, vt, vf)
		if !ok {
			panic(unsupported("if-conversion: unmergeable phi operands in %s", fr.fn.String()))
		}
		vals = append(vals, m)
		n++
	}
	for i := 0; i < n; i++ {
		ex.set(fr, join.Instrs[i].(*ssa.Phi), vals[i])
	}
	fr.prev, fr.block = arms[len(arms)-1].blk, join
	fr.pc = n
	ex.IfConverted++
	return true
}
