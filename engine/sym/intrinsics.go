// intrinsics.go: the harness API (v* functions). Harnesses are ordinary Go in
// the package under test; these functions have native bodies for replay
// (harness/api) and are intercepted by name here.
package sym

import (
	"fmt"
	"go/types"
)

var intrinsics map[string]NativeFn

func (ex *Exec) uniq(name string) string {
	n := ex.nameCount[name]
	ex.nameCount[name] = n + 1
	if n == 0 {
		return name
	}
	return fmt.Sprintf("%s#%d", name, n)
}

func (ex *Exec) strArg(v Value) string {
	s, ok := v.(string)
	if !ok {
		panic(unsupported("intrinsic needs a constant string name"))
	}
	return s
}

func (ex *Exec) newInput(name string, s Sort) *Term {
	n := ex.uniq(name)
	t := ex.C.Var(n, s)
	ex.inputs = append(ex.inputs, &Input{Name: n, Term: t})
	return t
}

func scalarIntrinsic(w int) NativeFn {
	return func(ex *Exec, g *Goroutine, cs *callSite, args []Value) Value {
		return ex.newInput(ex.strArg(args[0]), BV(w))
	}
}

func init() {
	intrinsics = map[string]NativeFn{
		"vU8":  scalarIntrinsic(8),
		"vU16": scalarIntrinsic(16),
		"vU32": scalarIntrinsic(32),
		"vU64": scalarIntrinsic(64),
		"vInt": scalarIntrinsic(64),
		"vI64": scalarIntrinsic(64),
		"vBool": func(ex *Exec, g *Goroutine, cs *callSite, args []Value) Value {
			return ex.newInput(ex.strArg(args[0]), BoolSort)
		},
		"vF32": func(ex *Exec, g *Goroutine, cs *callSite, args []Value) Value {
			return ex.newInput(ex.strArg(args[0]), FP(32))
		},
		// vIntRange(name, lo, hi): case split, one path per value
		"vIntRange": func(ex *Exec, g *Goroutine, cs *callSite, args []Value) Value {
			name := ex.uniq(ex.strArg(args[0]))
			lo, ok1 := constInt(args[1].(*Term))
			hi, ok2 := constInt(args[2].(*Term))
			if !ok1 || !ok2 || hi < lo {
				panic(unsupported("vIntRange needs constant bounds"))
			}
			c := ex.decide(-1, int(hi-lo+1), "range:"+name)
			v := lo + int64(c)
			ex.inputs = append(ex.inputs, &Input{Name: name, IsC: true, Conc: v})
			return ex.i64(v)
		},
		// vBytes(name, n): n concrete, contents symbolic
		"vBytes": func(ex *Exec, g *Goroutine, cs *callSite, args []Value) Value {
			name := ex.strArg(args[0])
			n, ok := constInt(args[1].(*Term))
			if !ok {
				panic(unsupported("vBytes needs a concrete length (use vStream)"))
			}
			a := ex.newDense(types.Typ[types.Uint8], int(n))
			base := ex.uniq(name)
			for i := range a.Dense {
				nm := fmt.Sprintf("%s[%d]", base, i)
				t := ex.C.Var(nm, BV(8))
				ex.inputs = append(ex.inputs, &Input{Name: nm, Term: t})
				a.Dense[i] = t
			}
			return Slice{Arr: a, Off: ex.i64(0), Len: ex.i64(n), Cap: ex.i64(n)}
		},
		// vStream(name, n): n may be symbolic; contents are an uninterpreted stream
		"vStream": func(ex *Exec, g *Goroutine, cs *callSite, args []Value) Value {
			name := ex.uniq(ex.strArg(args[0]))
			n := args[1].(*Term)
			arr := ex.newSym(types.Typ[types.Uint8], n, symBase{name: name})
			ex.C.UF(name, BV(8), ex.i64(0)) // declare
			ex.inputs = append(ex.inputs, &Input{Name: name, Stream: name, Len: n})
			return Slice{Arr: arr, Off: ex.i64(0), Len: n, Cap: n}
		},
		"vAssume": func(ex *Exec, g *Goroutine, cs *callSite, args []Value) Value {
			c := args[0].(*Term)
			if c.IsFalse() {
				panic(pathEnd{"assume false"})
			}
			if c.IsTrue() {
				return nil
			}
			// keep the path condition satisfiable (needed by query slicing)
			if !ex.replaying() {
				if res, _ := ex.solve(append(ex.pcCopy(), c), false); res == Unsat {
					ex.decide(1, 1, "assume-unsat")
					panic(pathEnd{"assume unsat"})
				}
				ex.decide(0, 1, "assume")
			} else if ex.decide(0, 1, "assume") == 1 {
				panic(pathEnd{"assume unsat"})
			}
			ex.addPC(c)
			return nil
		},
		"vAssert": func(ex *Exec, g *Goroutine, cs *callSite, args []Value) Value {
			c := args[0].(*Term)
			msg := ex.strArg(args[1])
			ex.assert(g, c, msg, cs)
			return nil
		},
		"vFail": func(ex *Exec, g *Goroutine, cs *callSite, args []Value) Value {
			ex.assert(g, ex.C.False(), ex.strArg(args[0]), cs)
			return nil
		},
		// vReach(label): vacuity guard; the label is recorded only if the path
		// condition is satisfiable here.
		"vReach": func(ex *Exec, g *Goroutine, cs *callSite, args []Value) Value {
			label := ex.strArg(args[0])
			if ex.Reached[label] {
				return nil
			}
			res, _ := ex.solve(ex.pcCopy(), false)
			if res == Sat {
				ex.Reached[label] = true
			}
			return nil
		},
		// vAdvance(d): advance the (symbolic) clock of a sequential harness
		"vAdvance": func(ex *Exec, g *Goroutine, cs *callSite, args []Value) Value {
			d := args[0].(*Term)
			if ex.SymClock == nil {
				if k, ok := constInt(d); ok && len(ex.timers) > 0 {
					// concrete advance with timers: discrete-event
					target := satAdd(ex.Clock, k)
					for {
						var min int64 = never
						for _, t := range ex.timers {
							if t.active && t.deadline < min {
								min = t.deadline
							}
						}
						if min > target {
							break
						}
						ex.Clock = min
						ex.fireDue()
					}
					ex.Clock = target
					return nil
				}
				ex.SymClock = ex.i64(ex.Clock)
			}
			ex.addPC(ex.C.Cmp(OSle, ex.i64(0), d))
			ex.SymClock = ex.C.Bin(OAdd, ex.SymClock, d)
			// no wrap-around of the virtual clock
			ex.addPC(ex.C.Cmp(OSle, ex.i64(0), ex.SymClock))
			return nil
		},
		// vQuiesce(): block main until no goroutine can run and no timer is pending
		"vQuiesce": func(ex *Exec, g *Goroutine, cs *callSite, args []Value) Value {
			if ex.quiesced {
				ex.quiesced = false
				return nil
			}
			ex.blockUntil(g, "quiesce", func() bool { return false })
			return nil
		},
		// vSleep(d): let virtual time pass (main blocks for d)
		"vLiveGoroutines": func(ex *Exec, g *Goroutine, cs *callSite, args []Value) Value {
			n := 0
			for _, x := range ex.gs {
				if x.status != gDone && x.id != 0 {
					n++
				}
			}
			return ex.i64(int64(n))
		},
		"vLiveTimers": func(ex *Exec, g *Goroutine, cs *callSite, args []Value) Value {
			n := 0
			for _, t := range ex.timers {
				if t.active && t.deadline != never {
					n++
				}
			}
			return ex.i64(int64(n))
		},
		"vLiveTickers": func(ex *Exec, g *Goroutine, cs *callSite, args []Value) Value {
			n := 0
			for _, t := range ex.timers {
				if t.active && t.period > 0 {
					n++
				}
			}
			return ex.i64(int64(n))
		},
		"vGoroutineDump": func(ex *Exec, g *Goroutine, cs *callSite, args []Value) Value {
			s := ""
			for _, x := range ex.gs {
				if x.status != gDone && x.id != 0 {
					s += fmt.Sprintf("[g%d %s created %s waiting %s] ", x.id, x.name, x.created, x.waitFor)
				}
			}
			return s
		},
		"vNowNs": func(ex *Exec, g *Goroutine, cs *callSite, args []Value) Value {
			return ex.nowTerm()
		},
		// vWord(idx): element idx of aezeed.DefaultWordList as a symbolic string
		"vTableString": func(ex *Exec, g *Goroutine, cs *callSite, args []Value) Value {
			tbl := args[0].(Slice)
			n, _ := constInt(tbl.Len)
			off, _ := constInt(tbl.Off)
			v := ex.readDense(tbl.Arr.Dense[off:off+n], ex.C.Fresh("tblidx", BV(64)), types.Typ[types.String])
			ss := v.(*SymStr)
			return &SymStr{Table: ss.Table, Idx: ex.toInt64(args[1].(*Term), types.Typ[types.Int])}
		},
		"vPopcount8": func(ex *Exec, g *Goroutine, cs *callSite, args []Value) Value {
			return ex.C.ZExt(ex.C.Popcount(args[0].(*Term)), 64)
		},
		// vParam(name, def): tier-dependent bound supplied by the check driver
		"vParam": func(ex *Exec, g *Goroutine, cs *callSite, args []Value) Value {
			if v, ok := ex.Params[ex.strArg(args[0])]; ok {
				return ex.i64(int64(v))
			}
			return args[1]
		},
		"vNativeReps": func(ex *Exec, g *Goroutine, cs *callSite, args []Value) Value {
			return args[0]
		},
		// vIdealEq(a, b): structural equality in the ideal-crypto model (distinct
		// ideal outputs are never equal); natively bytes.Equal.
		"vIdealEq": func(ex *Exec, g *Goroutine, cs *callSite, args []Value) Value {
			return ex.eqBytes(ex.sliceTerms(args[0]), ex.sliceTerms(args[1]))
		},
		// vSingleP(): natively runtime.GOMAXPROCS(1) (makes sync.Pool reuse
		// deterministic in a replay); nothing to do in the engine
		"vSingleP": func(ex *Exec, g *Goroutine, cs *callSite, args []Value) Value {
			return nil
		},
		// vNonceReuse(): have two AEAD Seal calls of this run used the same
		// key with the same nonce? (natively: not observable, false)
		"vNonceReuse": func(ex *Exec, g *Goroutine, cs *callSite, args []Value) Value {
			return ex.nonceReuse()
		},
		// vMentions(b, secret): does the term of any byte of b depend on the
		// stream/bytes of secret? (syntactic information flow, checked at a fresh
		// symbolic index for functional arrays)
		"vMentions": func(ex *Exec, g *Goroutine, cs *callSite, args []Value) Value {
			return ex.C.Bool(ex.mentions(args[0], args[1]))
		},
		// vPrivKey(name): a secp256k1 private key with a symbolic identity (may
		// coincide with other vPrivKey keys unless the harness assumes otherwise)
		"vPrivKey": func(ex *Exec, g *Goroutine, cs *callSite, args []Value) Value {
			id := ex.newInput(ex.strArg(args[0]), BV(64))
			return ex.privPtr(ex.newPriv(ex.strArg(args[0]), id))
		},
		// vNegPrivKey(k): the key n - k (public key -P: same x coordinate)
		"vNegPrivKey": func(ex *Exec, g *Goroutine, cs *callSite, args []Value) Value {
			k := ex.asPriv(args[0])
			n := ex.newPriv(k.name+"!neg", nil)
			n.negOf = k
			return ex.privPtr(n)
		},
		"vSamePrivKey": func(ex *Exec, g *Goroutine, cs *callSite, args []Value) Value {
			a, b := ex.asPriv(args[0]), ex.asPriv(args[1])
			return ex.C.Eq(a.id, b.id)
		},
		"vSamePubKey": func(ex *Exec, g *Goroutine, cs *callSite, args []Value) Value {
			a, b := ex.asPub(args[0]), ex.asPub(args[1])
			if a == nil || b == nil {
				return ex.C.Bool(a == nil && b == nil)
			}
			return ex.eqPoint(a, b)
		},
		"vIsSymbolicRun": func(ex *Exec, g *Goroutine, cs *callSite, args []Value) Value {
			return ex.C.True()
		},
	}
}

func (ex *Exec) assert(g *Goroutine, c *Term, msg string, cs *callSite) {
	ex.Reached["assert:"+msg] = true
	if c.IsTrue() {
		return
	}
	where := ex.where(ex.topFrame(g), cs.pos)
	ex.findViolation(ex.C.Not(c), "assert", msg, where)
	ex.decide(0, 1, "assert")
	if c.IsFalse() {
		panic(pathEnd{"assert false"})
	}
	ex.addPC(c)
}

// symbolsOfBytes collects the free symbols of every byte term of v.
func (ex *Exec) symbolsOfBytes(v Value) map[int]bool {
	out := map[int]bool{}
	add := func(t *Term) {
		for _, s := range ex.C.SymbolsOf(t) {
			out[s] = true
		}
	}
	s, ok := v.(Slice)
	if !ok || s.Arr == nil {
		return out
	}
	if n, ok := ex.constOf(s.Len); ok && (s.Arr.isDense() || n <= 64) {
		for i := int64(0); i < n; i++ {
			add(ex.loadElem(s.Arr, ex.C.Bin(OAdd, s.Off, ex.i64(i))).(*Term))
		}
		return out
	}
	w := ex.C.Fresh("witness", BV(64))
	add(ex.loadElem(s.Arr, ex.C.Bin(OAdd, s.Off, w)).(*Term))
	delete(out, w.ID)
	return out
}

func (ex *Exec) mentions(b, secret Value) bool {
	bs := ex.symbolsOfBytes(b)
	for s := range ex.symbolsOfBytes(secret) {
		if bs[s] {
			return true
		}
	}
	return false
}
