// natives.go: environment models (sync, atomic, time, context, fmt, logging,
// errors) and harness intrinsics. Every model here is part of the claim of a
// check and is listed in the evidence.
package sym

import (
	"fmt"
	"go/types"
	"strings"

	"golang.org/x/tools/go/ssa"
)

var synthTypes = map[string]*types.Named{}

func synthType(name string) types.Type {
	if t, ok := synthTypes[name]; ok {
		return t
	}
	tn := types.NewTypeName(0, nil, name, nil)
	t := types.NewNamed(tn, types.NewStruct(nil, nil), nil)
	synthTypes[name] = t
	return t
}

func init() {
	for _, n := range []string{"verif.logger", "verif.ctx", "verif.error", "verif.hash", "verif.aead", "verif.reader", "verif.pubkey", "verif.privkey"} {
		synthType(n)
	}
}

type mutexState struct {
	writer  *Goroutine
	locked  bool
	readers int
	// goroutines blocked in RWMutex.Lock: as in sync.RWMutex, a pending
	// writer keeps new readers out (so a recursive RLock can deadlock)
	waitingW map[*Goroutine]bool
}

type wgState struct{ n int64 }
type onceState struct {
	running bool
	done    bool
	by      *Goroutine
}

func (ex *Exec) ptrKey(v Value) *Value {
	p, ok := v.(Ptr)
	if !ok || p.Slot == nil {
		panic(unsupported("sync object reached through nil/symbolic pointer"))
	}
	return p.Slot
}

func (ex *Exec) mutex(v Value) *mutexState {
	k := ex.ptrKey(v)
	m, ok := ex.mutexes[k]
	if !ok {
		m = &mutexState{}
		ex.mutexes[k] = m
	}
	return m
}

func (ex *Exec) lookupNative(fn *ssa.Function, name string) NativeFn {
	if ex.P.Stubs != nil {
		if nf, ok := ex.P.Stubs[name]; ok {
			return nf
		}
	}
	if nf, ok := natives[name]; ok {
		return nf
	}
	if fn.Pkg != nil && fn.Pkg == ex.P.Main && strings.HasPrefix(fn.Name(), "v") {
		if nf, ok := intrinsics[fn.Name()]; ok {
			return nf
		}
	}
	if strings.HasPrefix(name, "sync/atomic.") || strings.HasPrefix(name, "(*sync/atomic.") {
		return atomicNative(fn, name)
	}
	if cryptoNatives != nil {
		if nf, ok := cryptoNatives[name]; ok {
			return nf
		}
	}
	if nf, ok := groupNatives[name]; ok {
		return nf
	}
	return nil
}

var cryptoNatives map[string]NativeFn
var groupNatives map[string]NativeFn

func (ex *Exec) zeroOKGlobal(g *ssa.Global) bool {
	if g.Pkg == nil {
		return true
	}
	switch g.Pkg.Pkg.Path() + "." + g.Name() {
	case "encoding/binary.BigEndian", "encoding/binary.LittleEndian", "time.localLoc", "time.utcLoc",
		"io.ErrShortWrite", "io.errInvalidWrite":
		return true
	}
	return false
}

func (ex *Exec) nativeImplements(itf Iface, it *types.Interface) bool {
	if _, ok := itf.V.(*Opaque); ok {
		return true
	}
	return false
}

// ifaceIntercept: calls through these interface types are environment, not
// code under test.
func (ex *Exec) ifaceIntercept(ifaceT types.Type, method string) NativeFn {
	n, ok := ifaceT.(*types.Named)
	if !ok {
		return nil
	}
	if n.Obj().Pkg() == nil {
		return nil
	}
	switch n.Obj().Pkg().Path() + "." + n.Obj().Name() {
	case "github.com/btcsuite/btclog/v2.Logger", "github.com/btcsuite/btclog.Logger":
		switch method {
		case "WithPrefix", "SubSystem":
			return func(ex *Exec, g *Goroutine, cs *callSite, args []Value) Value { return args[0] }
		case "Level":
			return func(ex *Exec, g *Goroutine, cs *callSite, args []Value) Value { return ex.C.Const(BV(32), 6) }
		}
		return func(ex *Exec, g *Goroutine, cs *callSite, args []Value) Value { return nil }
	}
	return nil
}

func nop(ex *Exec, g *Goroutine, cs *callSite, args []Value) Value { return nil }

var natives map[string]NativeFn

func init() {
	natives = map[string]NativeFn{
		// ---- sync ----
		"(*sync.Mutex).Lock": func(ex *Exec, g *Goroutine, cs *callSite, args []Value) Value {
			m := ex.mutex(args[0])
			if m.locked {
				ex.blockUntil(g, "Mutex.Lock", func() bool { return !m.locked })
				return nil
			}
			m.locked, m.writer = true, g
			ex.lockAcquired(g, args[0])
			return nil
		},
		"(*sync.Mutex).TryLock": func(ex *Exec, g *Goroutine, cs *callSite, args []Value) Value {
			m := ex.mutex(args[0])
			if m.locked {
				return ex.C.False()
			}
			m.locked, m.writer = true, g
			ex.lockAcquired(g, args[0])
			return ex.C.True()
		},
		"(*sync.Mutex).Unlock": func(ex *Exec, g *Goroutine, cs *callSite, args []Value) Value {
			m := ex.mutex(args[0])
			if !m.locked {
				ex.goPanic(g, ex.topFrame(g), "sync: unlock of unlocked mutex", cs.pos)
			}
			m.locked, m.writer = false, nil
			ex.lockReleased(g, args[0])
			return nil
		},
		"(*sync.RWMutex).Lock": func(ex *Exec, g *Goroutine, cs *callSite, args []Value) Value {
			m := ex.mutex(args[0])
			if m.locked || m.readers > 0 {
				if m.waitingW == nil {
					m.waitingW = map[*Goroutine]bool{}
				}
				m.waitingW[g] = true
				ex.blockUntil(g, "RWMutex.Lock", func() bool { return !m.locked && m.readers == 0 })
				return nil
			}
			delete(m.waitingW, g)
			m.locked, m.writer = true, g
			ex.lockAcquired(g, args[0])
			return nil
		},
		"(*sync.RWMutex).Unlock": func(ex *Exec, g *Goroutine, cs *callSite, args []Value) Value {
			m := ex.mutex(args[0])
			if !m.locked {
				ex.goPanic(g, ex.topFrame(g), "sync: Unlock of unlocked RWMutex", cs.pos)
			}
			m.locked, m.writer = false, nil
			ex.lockReleased(g, args[0])
			return nil
		},
		"(*sync.RWMutex).RLock": func(ex *Exec, g *Goroutine, cs *callSite, args []Value) Value {
			m := ex.mutex(args[0])
			if m.locked || len(m.waitingW) > 0 {
				ex.blockUntil(g, "RWMutex.RLock", func() bool { return !m.locked && len(m.waitingW) == 0 })
				return nil
			}
			m.readers++
			ex.lockAcquired(g, args[0])
			return nil
		},
		"(*sync.RWMutex).RUnlock": func(ex *Exec, g *Goroutine, cs *callSite, args []Value) Value {
			m := ex.mutex(args[0])
			if m.readers <= 0 {
				ex.goPanic(g, ex.topFrame(g), "sync: RUnlock of unlocked RWMutex", cs.pos)
			}
			m.readers--
			ex.lockReleased(g, args[0])
			return nil
		},
		"(*sync.WaitGroup).Add": func(ex *Exec, g *Goroutine, cs *callSite, args []Value) Value {
			w := ex.wg(args[0])
			d, ok := constInt(args[1].(*Term))
			if !ok {
				panic(unsupported("WaitGroup.Add with symbolic delta"))
			}
			w.n += d
			if w.n < 0 {
				ex.goPanic(g, ex.topFrame(g), "sync: negative WaitGroup counter", cs.pos)
			}
			if ex.RaceMode {
				ex.raceRelease(g, ex.ptrKey(args[0]))
			}
			return nil
		},
		"(*sync.WaitGroup).Done": func(ex *Exec, g *Goroutine, cs *callSite, args []Value) Value {
			w := ex.wg(args[0])
			w.n--
			if w.n < 0 {
				ex.goPanic(g, ex.topFrame(g), "sync: negative WaitGroup counter", cs.pos)
			}
			if ex.RaceMode {
				ex.raceRelease(g, ex.ptrKey(args[0]))
			}
			ex.yieldAfterCall = true
			return nil
		},
		"(*sync.WaitGroup).Wait": func(ex *Exec, g *Goroutine, cs *callSite, args []Value) Value {
			w := ex.wg(args[0])
			if w.n > 0 {
				ex.blockUntil(g, "WaitGroup.Wait", func() bool { return w.n == 0 })
				return nil
			}
			if ex.RaceMode {
				ex.raceAcquire(g, ex.ptrKey(args[0]))
			}
			return nil
		},
		// sync.Pool: a LIFO free list per pool (items are never dropped - one
		// of the behaviours the real pool may show; a pool with a New
		// function is not modelled)
		"(*sync.Pool).Put": func(ex *Exec, g *Goroutine, cs *callSite, args []Value) Value {
			k := ex.ptrKey(args[0])
			if i, ok := args[1].(Iface); ok && i.T == nil {
				return nil
			}
			ex.pools[k] = append(ex.pools[k], args[1])
			return nil
		},
		"(*sync.Pool).Get": func(ex *Exec, g *Goroutine, cs *callSite, args []Value) Value {
			k := ex.ptrKey(args[0])
			l := ex.pools[k]
			if len(l) == 0 {
				return Iface{}
			}
			v := l[len(l)-1]
			ex.pools[k] = l[:len(l)-1]
			return v
		},
		"(*sync.Once).Do": func(ex *Exec, g *Goroutine, cs *callSite, args []Value) Value {
			k := ex.ptrKey(args[0])
			o, ok := ex.onces[k]
			if !ok {
				o = &onceState{}
				ex.onces[k] = o
			}
			if o.done {
				if ex.RaceMode {
					ex.raceAcquire(g, k)
				}
				return nil
			}
			if o.running {
				ex.blockUntil(g, "Once.Do (in progress elsewhere)", func() bool { return o.done })
				return nil
			}
			o.running, o.by = true, g
			ex.callFromNative(g, args[1], nil, func(Value) {
				o.done = true
				if ex.RaceMode {
					ex.raceRelease(g, k)
				}
			})
			return nil
		},
		// ---- time ----
		"time.Now": func(ex *Exec, g *Goroutine, cs *callSite, args []Value) Value {
			return ex.timeValueT(ex.nowTerm())
		},
		"time.Since": func(ex *Exec, g *Goroutine, cs *callSite, args []Value) Value {
			ex.callMethodFromNative(g, cs, "time", "Time", "Sub", []Value{ex.timeValueT(ex.nowTerm()), args[0]})
			return nil
		},
		"time.Until": func(ex *Exec, g *Goroutine, cs *callSite, args []Value) Value {
			ex.callMethodFromNative(g, cs, "time", "Time", "Sub", []Value{args[0], ex.timeValueT(ex.nowTerm())})
			return nil
		},
		"time.Sleep": func(ex *Exec, g *Goroutine, cs *callSite, args []Value) Value {
			d := ex.durArg(args[0])
			if d <= 0 {
				return nil
			}
			if g.sleepUntil != nil {
				// retried after wake-up
				g.sleepUntil = nil
				return nil
			}
			g.sleepUntil = ex.i64(satAdd(ex.Clock, d))
			woke := false
			ex.newTimer(d, 0, nil, func() { woke = true }, "sleep")
			ex.blockUntil(g, "time.Sleep", func() bool { return woke })
			return nil
		},
		"time.NewTimer": func(ex *Exec, g *Goroutine, cs *callSite, args []Value) Value {
			return ex.makeTimerObj(ex.durArg(args[0]), 0, "timer@"+ex.where(ex.topFrame(g), cs.pos))
		},
		"time.After": func(ex *Exec, g *Goroutine, cs *callSite, args []Value) Value {
			p := ex.makeTimerObj(ex.durArg(args[0]), 0, "after@"+ex.where(ex.topFrame(g), cs.pos)).(Ptr)
			return (*p.Slot).(Struct)[0]
		},
		"time.NewTicker": func(ex *Exec, g *Goroutine, cs *callSite, args []Value) Value {
			d := ex.durArg(args[0])
			if d <= 0 {
				ex.goPanic(g, ex.topFrame(g), "non-positive interval for NewTicker", cs.pos)
			}
			return ex.makeTimerObj(d, d, "ticker@"+ex.where(ex.topFrame(g), cs.pos))
		},
		"(*time.Timer).Stop": func(ex *Exec, g *Goroutine, cs *callSite, args []Value) Value {
			t := ex.timerOf(args[0])
			was := t.active
			t.active = false
			t.ch.buf = nil
			ex.dropTimer(t)
			return ex.C.Bool(was)
		},
		"(*time.Timer).Reset": func(ex *Exec, g *Goroutine, cs *callSite, args []Value) Value {
			t := ex.timerOf(args[0])
			was := t.active
			t.ch.buf = nil
			ex.rearm(t, ex.durArg(args[1]), 0)
			return ex.C.Bool(was)
		},
		"(*time.Ticker).Stop": func(ex *Exec, g *Goroutine, cs *callSite, args []Value) Value {
			t := ex.timerOf(args[0])
			t.active = false
			t.ch.buf = nil
			ex.dropTimer(t)
			return nil
		},
		"(*time.Ticker).Reset": func(ex *Exec, g *Goroutine, cs *callSite, args []Value) Value {
			t := ex.timerOf(args[0])
			d := ex.durArg(args[1])
			if d <= 0 {
				ex.goPanic(g, ex.topFrame(g), "non-positive interval for Ticker.Reset", cs.pos)
			}
			t.ch.buf = nil
			ex.rearm(t, d, d)
			return nil
		},
		// ---- fmt / errors / misc ----
		"fmt.Sprintf": func(ex *Exec, g *Goroutine, cs *callSite, args []Value) Value {
			if s, ok := args[0].(string); ok {
				return ex.formatConcrete(s, args[1])
			}
			return "<sprintf>"
		},
		"fmt.Sprint":   func(ex *Exec, g *Goroutine, cs *callSite, args []Value) Value { return "<sprint>" },
		"fmt.Sprintln": func(ex *Exec, g *Goroutine, cs *callSite, args []Value) Value { return "<sprintln>" },
		"fmt.Println":  func(ex *Exec, g *Goroutine, cs *callSite, args []Value) Value { return Tuple{ex.i64(0), Iface{}} },
		"fmt.Printf":   func(ex *Exec, g *Goroutine, cs *callSite, args []Value) Value { return Tuple{ex.i64(0), Iface{}} },
		"fmt.Errorf": func(ex *Exec, g *Goroutine, cs *callSite, args []Value) Value {
			s, _ := args[0].(string)
			e := ex.newError("errorf: " + s)
			// remember wrapped errors (%w) for errors.Is
			if strings.Contains(s, "%w") {
				if sl, ok := args[1].(Slice); ok && sl.Arr != nil {
					n, _ := constInt(sl.Len)
					for i := int64(0); i < n; i++ {
						if it, ok := ex.loadElem(sl.Arr, ex.C.Bin(OAdd, sl.Off, ex.i64(i))).(Iface); ok && it.T != nil {
							if _, isErr := it.V.(Ptr); isErr && implementsError(it.T) {
								ex.wraps[e.V.(Ptr).Slot] = it
							}
						}
					}
				}
			}
			return e
		},
		"errors.Is": func(ex *Exec, g *Goroutine, cs *callSite, args []Value) Value {
			e, target := args[0].(Iface), args[1].(Iface)
			for depth := 0; depth < 10 && e.T != nil; depth++ {
				if ex.eqValue(e, target).IsTrue() {
					return ex.C.True()
				}
				p, ok := e.V.(Ptr)
				if !ok || p.Slot == nil {
					break
				}
				w, ok := ex.wraps[p.Slot]
				if !ok {
					break
				}
				e = w
			}
			return ex.C.False()
		},
		// errors.As: walks the wrap chain; a target of interface type matches
		// the first error whose dynamic type implements it, a concrete target
		// the first error of exactly that type
		"errors.As": func(ex *Exec, g *Goroutine, cs *callSite, args []Value) Value {
			e, ok1 := args[0].(Iface)
			tgt, ok2 := args[1].(Iface)
			if !ok1 || !ok2 || tgt.T == nil {
				panic(unsupported("errors.As with an unexpected argument shape"))
			}
			pt, ok := tgt.T.Underlying().(*types.Pointer)
			tp, okp := tgt.V.(Ptr)
			if !ok || !okp || tp.Slot == nil {
				panic(unsupported("errors.As target is not a pointer to a variable"))
			}
			elem := pt.Elem()
			for depth := 0; depth < 10 && e.T != nil; depth++ {
				if it, isI := elem.Underlying().(*types.Interface); isI {
					if types.Implements(e.T, it) || ex.nativeImplements(e, it) {
						*tp.Slot = e
						return ex.C.True()
					}
				} else if types.Identical(e.T, elem) {
					*tp.Slot = e.V
					return ex.C.True()
				}
				p, ok := e.V.(Ptr)
				if !ok || p.Slot == nil {
					break
				}
				w, ok := ex.wraps[p.Slot]
				if !ok {
					break
				}
				e = w
			}
			return ex.C.False()
		},
		"strings.Split": func(ex *Exec, g *Goroutine, cs *callSite, args []Value) Value {
			a, ok1 := args[0].(string)
			b, ok2 := args[1].(string)
			if !ok1 || !ok2 {
				panic(unsupported("strings.Split on symbolic strings"))
			}
			parts := strings.Split(a, b)
			arr := ex.newDense(types.Typ[types.String], len(parts))
			for i, p := range parts {
				arr.Dense[i] = p
			}
			n := ex.i64(int64(len(parts)))
			return Slice{Arr: arr, Off: ex.i64(0), Len: n, Cap: n}
		},
		"bytes.Equal": func(ex *Exec, g *Goroutine, cs *callSite, args []Value) Value {
			a, b := args[0].(Slice), args[1].(Slice)
			la, lb := a.lenOr0(ex), b.lenOr0(ex)
			if _, ok := ex.constOf(la); ok {
				if _, ok2 := ex.constOf(lb); ok2 {
					return ex.eqBytes(ex.sliceTerms(a), ex.sliceTerms(b))
				}
			}
			// symbolic lengths: equal length and equal at a fresh witness index is not
			// expressible as a term; compare lengths and fork on content at a witness
			panic(unsupported("bytes.Equal on slices of symbolic length"))
		},
		"strings.Contains": func(ex *Exec, g *Goroutine, cs *callSite, args []Value) Value {
			a, ok1 := args[0].(string)
			b, ok2 := args[1].(string)
			if !ok1 || !ok2 {
				panic(unsupported("strings.Contains on symbolic strings"))
			}
			return ex.C.Bool(strings.Contains(a, b))
		},
		"strings.Index": func(ex *Exec, g *Goroutine, cs *callSite, args []Value) Value {
			a, ok1 := args[0].(string)
			b, ok2 := args[1].(string)
			if !ok1 || !ok2 {
				panic(unsupported("strings.Index on symbolic strings"))
			}
			return ex.i64(int64(strings.Index(a, b)))
		},
		"google.golang.org/grpc/status.FromError": func(ex *Exec, g *Goroutine, cs *callSite, args []Value) Value {
			return Tuple{Ptr{}, ex.C.False()}
		},
		"hash/crc32.MakeTable": func(ex *Exec, g *Goroutine, cs *callSite, args []Value) Value {
			return Ptr{Tag: &Opaque{Kind: "crc32table"}}
		},
		"time.Unix": func(ex *Exec, g *Goroutine, cs *callSite, args []Value) Value {
			return Struct{ex.C.Const(BV(64), 0), args[0], Ptr{}}
		},
		"regexp.MustCompile": func(ex *Exec, g *Goroutine, cs *callSite, args []Value) Value {
			return Ptr{Tag: &Opaque{Kind: "regexp", Data: args[0]}}
		},
		"runtime/debug.FreeOSMemory":                 nop,
		"runtime.Gosched":                            nop,
		"runtime.GC":                                 nop,
		"github.com/lightningnetwork/lnd/build.NewSubLogger": func(ex *Exec, g *Goroutine, cs *callSite, args []Value) Value {
			return Iface{T: synthType("verif.logger"), V: &Opaque{Kind: "logger"}}
		},
		// ---- context ----
		"context.Background": func(ex *Exec, g *Goroutine, cs *callSite, args []Value) Value {
			return ex.ctxBackground()
		},
		"context.TODO": func(ex *Exec, g *Goroutine, cs *callSite, args []Value) Value {
			return ex.ctxBackground()
		},
		"context.WithCancel": func(ex *Exec, g *Goroutine, cs *callSite, args []Value) Value {
			c := ex.newCtx(args[0].(Iface))
			return Tuple{c.iface(), c.cancelFn(ex)}
		},
		"context.WithTimeout": func(ex *Exec, g *Goroutine, cs *callSite, args []Value) Value {
			c := ex.newCtx(args[0].(Iface))
			d := ex.durArg(args[1])
			c.timer = ex.newTimer(d, 0, nil, func() { c.cancel(ex, ex.ctxDeadlineErr()) }, "ctx timeout")
			return Tuple{c.iface(), c.cancelFn(ex)}
		},
	}
}

func implementsError(t types.Type) bool {
	ms := types.NewMethodSet(t)
	return ms.Lookup(nil, "Error") != nil
}

func (ex *Exec) wg(v Value) *wgState {
	k := ex.ptrKey(v)
	w, ok := ex.wgs[k]
	if !ok {
		w = &wgState{}
		ex.wgs[k] = w
	}
	return w
}

func (ex *Exec) lockAcquired(g *Goroutine, m Value) {
	if ex.RaceMode {
		ex.raceAcquire(g, ex.ptrKey(m))
	}
	ex.yieldAfterCall = ex.RaceMode
}
func (ex *Exec) lockReleased(g *Goroutine, m Value) {
	if ex.RaceMode {
		ex.raceRelease(g, ex.ptrKey(m))
	}
	ex.yieldAfterCall = true
}

// callFromNative pushes a frame for fn on g's stack; when it returns, done is
// called and the caller's call instruction completes.
func (ex *Exec) callFromNative(g *Goroutine, fn Value, args []Value, done func(Value)) {
	cl, ok := fn.(*Closure)
	if !ok || cl == nil {
		panic(unsupported("callFromNative: %T", fn))
	}
	if cl.Native != nil {
		done(cl.Native(ex, g, args))
		return
	}
	if nf := ex.lookupNative(cl.Fn, cl.Fn.String()); nf != nil {
		done(nf(ex, g, &callSite{}, args))
		return
	}
	fr := ex.newFrame(cl.Fn, args, cl.Env)
	fr.retTo = -1
	fr.onReturn = done
	g.stack = append(g.stack, fr)
	ex.nativePushed = true
	ex.countFn(cl.Fn)
}

// callMethodFromNative tail-calls pkg.Type.method with args; the result is
// delivered to the original call instruction.
func (ex *Exec) callMethodFromNative(g *Goroutine, cs *callSite, pkg, typ, method string, args []Value) {
	p := ex.P.Prog.ImportedPackage(pkg)
	if p == nil {
		panic(unsupported("package %s not loaded", pkg))
	}
	T := p.Type(typ).Type()
	sel := ex.P.Prog.MethodSets.MethodSet(T).Lookup(p.Pkg, method)
	if sel == nil {
		panic(unsupported("method %s.%s.%s not found", pkg, typ, method))
	}
	fn := ex.P.Prog.MethodValue(sel)
	caller := ex.topFrame(g)
	retIdx := -1
	if v, ok := cs.instr.(ssa.Value); ok {
		retIdx = caller.info.idx[v]
	}
	fr := ex.newFrame(fn, args, nil)
	fr.retTo = retIdx
	g.stack = append(g.stack, fr)
	ex.nativePushed = true
}

func (ex *Exec) durArg(v Value) int64 {
	t := v.(*Term)
	if k, ok := constInt(t); ok {
		return k
	}
	return ex.concretize(t, "duration")
}

const wallBase = uint64(1)<<63 | uint64(4449000000)<<30

func (ex *Exec) timeValue(ns int64) Value { return ex.timeValueT(ex.i64(ns)) }

func (ex *Exec) timeValueT(ns *Term) Value {
	return Struct{ex.C.Const(BV(64), wallBase), ns, Ptr{}}
}

func (ex *Exec) nowTerm() *Term {
	if ex.SymClock != nil {
		return ex.SymClock
	}
	return ex.i64(ex.Clock)
}

func (ex *Exec) makeTimerObj(d, period int64, what string) Value {
	if ex.SymClock != nil {
		panic(unsupported("timer created under a symbolic clock"))
	}
	ch := ex.newChan(ex.timeType(), ex.i64(1))
	t := ex.newTimer(d, period, ch, nil, what)
	ch.timer = t
	slot := new(Value)
	*slot = Struct{ch, ex.C.True()}
	ex.timerObjs[slot] = t
	return Ptr{Slot: slot}
}

func (ex *Exec) timeType() types.Type {
	return ex.P.Prog.ImportedPackage("time").Type("Time").Type()
}

func (ex *Exec) timerOf(v Value) *Timer {
	p := v.(Ptr)
	t, ok := ex.timerObjs[p.Slot]
	if !ok {
		panic(unsupported("Stop/Reset on a timer not created by the model"))
	}
	return t
}

func (ex *Exec) dropTimer(t *Timer) {
	live := ex.timers[:0]
	for _, x := range ex.timers {
		if x != t {
			live = append(live, x)
		}
	}
	ex.timers = live
}

func (ex *Exec) rearm(t *Timer, d, period int64) {
	ex.dropTimer(t)
	t.active = true
	t.period = period
	t.deadline = satAdd(ex.Clock, d)
	if d < 0 {
		t.deadline = ex.Clock
	}
	ex.timers = append(ex.timers, t)
}

func (ex *Exec) formatConcrete(format string, rest Value) Value {
	sl, ok := rest.(Slice)
	if !ok || sl.Arr == nil {
		return format
	}
	n, ok := constInt(sl.Len)
	if !ok {
		return format
	}
	var as []interface{}
	for i := int64(0); i < n; i++ {
		it, ok := ex.loadElem(sl.Arr, ex.C.Bin(OAdd, sl.Off, ex.i64(i))).(Iface)
		if !ok {
			return format
		}
		switch v := it.V.(type) {
		case string:
			as = append(as, v)
		case *Term:
			if !v.IsConst() {
				return format
			}
			if isSigned(it.T) {
				as = append(as, sext64(v.Val, v.Sort.W))
			} else {
				as = append(as, v.Val)
			}
		default:
			return format
		}
	}
	return fmt.Sprintf(format, as...)
}

// newError creates a fresh non-nil error value of the real type
// *errors.errorString.
func (ex *Exec) newError(msg string) Iface {
	slot := new(Value)
	*slot = Struct{msg}
	return Iface{T: ex.errorStringPtrType(), V: Ptr{Slot: slot}}
}

func (ex *Exec) errorStringPtrType() types.Type {
	if ex.P.errStrT == nil {
		p := ex.P.Prog.ImportedPackage("errors")
		ex.P.errStrT = types.NewPointer(p.Type("errorString").Type())
	}
	return ex.P.errStrT
}

// ---------------------------------------------------------------------------
// context model

type ctxObj struct {
	parent   *ctxObj
	children []*ctxObj
	done     *Chan
	err      Value // Iface
	timer    *Timer
	cancelCl *Closure
}

func (c *ctxObj) iface() Iface { return Iface{T: synthType("verif.ctx"), V: &Opaque{Kind: "ctx", Data: c}} }

func (ex *Exec) ctxBackground() Iface {
	if ex.bgCtx == nil {
		ex.bgCtx = &ctxObj{}
	}
	return ex.bgCtx.iface()
}

func (ex *Exec) newCtx(parent Iface) *ctxObj {
	op, ok := parent.V.(*Opaque)
	if !ok {
		panic(unsupported("context derived from a non-model context %s", typeString(parent.T)))
	}
	p := op.Data.(*ctxObj)
	c := &ctxObj{parent: p, done: ex.newChan(types.NewStruct(nil, nil), ex.i64(0))}
	p.children = append(p.children, c)
	if p.err != nil {
		c.cancel(ex, p.err)
	}
	return c
}

func (c *ctxObj) cancel(ex *Exec, err Value) {
	if c.err != nil {
		return
	}
	c.err = err
	if c.timer != nil {
		c.timer.active = false
		ex.dropTimer(c.timer)
	}
	if c.done != nil && !c.done.closed {
		ex.chanClose(ex.cur, c.done, 0)
	}
	for _, ch := range c.children {
		ch.cancel(ex, err)
	}
}

func (c *ctxObj) cancelFn(ex *Exec) *Closure {
	if c.cancelCl == nil {
		c.cancelCl = &Closure{Name: "ctx.cancel", Native: func(ex *Exec, g *Goroutine, args []Value) Value {
			c.cancel(ex, ex.ctxCanceledErr())
			return nil
		}}
	}
	return c.cancelCl
}

func (ex *Exec) ctxCanceledErr() Value {
	if ex.errCanceled == nil {
		e := ex.newError("context canceled")
		ex.errCanceled = e
		ex.bindGlobal("context", "Canceled", e)
	}
	return ex.errCanceled
}
func (ex *Exec) ctxDeadlineErr() Value {
	if ex.errDeadline == nil {
		e := ex.newError("context deadline exceeded")
		ex.errDeadline = e
		ex.bindGlobal("context", "DeadlineExceeded", e)
	}
	return ex.errDeadline
}

// bindGlobal pre-sets a package-level variable of a package whose init is not run.
func (ex *Exec) bindGlobal(pkg, name string, v Value) {
	p := ex.P.Prog.ImportedPackage(pkg)
	if p == nil {
		return
	}
	g, ok := p.Members[name].(*ssa.Global)
	if !ok {
		return
	}
	s := new(Value)
	*s = v
	ex.globals[g] = s
}

func (ex *Exec) opaqueInvoke(g *Goroutine, cs *callSite, op *Opaque, method string, args []Value) Value {
	switch op.Kind {
	case "ctx":
		c := op.Data.(*ctxObj)
		switch method {
		case "Done":
			if c.done == nil {
				return (*Chan)(nil)
			}
			return c.done
		case "Err":
			if c.err == nil {
				return Iface{}
			}
			return c.err
		case "Value":
			return Iface{}
		case "Deadline":
			return Tuple{ex.timeValue(0), ex.C.False()}
		}
	case "logger":
		return nil
	}
	if h, ok := opaqueHandlers[op.Kind]; ok {
		return h(ex, g, cs, op, method, args)
	}
	panic(unsupported("method %s on model object %s", method, op.Kind))
}

var opaqueHandlers = map[string]func(ex *Exec, g *Goroutine, cs *callSite, op *Opaque, method string, args []Value) Value{}

// ---------------------------------------------------------------------------
// sync/atomic

func atomicNative(fn *ssa.Function, name string) NativeFn {
	short := fn.Name()
	isMethod := fn.Signature.Recv() != nil
	return func(ex *Exec, g *Goroutine, cs *callSite, args []Value) Value {
		p := args[0].(Ptr)
		if isMethod {
			// atomic.Int32 etc.: struct{_ noCopy; v T} - value is the last field; atomic.Bool: v uint32
			s, ok := (*p.Slot).(Struct)
			if !ok {
				panic(unsupported("atomic method on %T", *p.Slot))
			}
			p = Ptr{Slot: &s[len(s)-1]}
		}
		if ex.RaceMode {
			// atomics synchronise: acquire+release on the cell
			ex.raceAcquire(g, p.Slot)
			ex.raceRelease(g, p.Slot)
		}
		ex.yieldAfterCall = ex.RaceMode
		cur := (*p.Slot)
		recvBool := isMethod && strings.Contains(name, "atomic.Bool)")
		switch {
		case strings.HasPrefix(short, "Load"):
			if recvBool {
				return ex.C.Not(ex.C.Eq(cur.(*Term), ex.C.Const(cur.(*Term).Sort, 0)))
			}
			return cur
		case strings.HasPrefix(short, "Store"):
			v := args[1]
			if recvBool {
				v = ex.C.Ite(v.(*Term), ex.C.Const(BV(32), 1), ex.C.Const(BV(32), 0))
			}
			*p.Slot = v
			return nil
		case strings.HasPrefix(short, "Add"):
			n := ex.C.Bin(OAdd, cur.(*Term), args[1].(*Term))
			*p.Slot = n
			return n
		case strings.HasPrefix(short, "Swap"):
			*p.Slot = args[1]
			return cur
		case strings.HasPrefix(short, "CompareAndSwap"):
			eq := ex.eqValue(cur, args[1])
			m, ok := ex.merge(eq, args[2], cur)
			if !ok {
				if ex.branch(eq, cs.pos) {
					*p.Slot = args[2]
					return ex.C.True()
				}
				return ex.C.False()
			}
			*p.Slot = m
			return eq
		}
		panic(unsupported("atomic operation %s", name))
	}
}
