// calls.go: call resolution, builtins, goroutine creation.
package sym

import (
	"fmt"
	"go/token"
	"go/types"

	"golang.org/x/tools/go/ssa"
)

func (ex *Exec) prepareCall(fr *Frame, call *ssa.CallCommon) (fn Value, args []Value) {
	if call.IsInvoke() {
		recv := ex.get(fr, call.Value)
		args = append(args, recv)
		for _, a := range call.Args {
			args = append(args, ex.get(fr, a))
		}
		return &invokeTarget{method: call.Method, ifaceT: call.Value.Type()}, args
	}
	if b, ok := call.Value.(*ssa.Builtin); ok {
		for _, a := range call.Args {
			args = append(args, ex.get(fr, a))
		}
		var ats []types.Type
		for _, a := range call.Args {
			ats = append(ats, a.Type())
		}
		return &builtinTarget{name: b.Name(), argTypes: ats, sig: call.Signature(), resT: b.Type().(*types.Signature).Results()}, args
	}
	fn = ex.get(fr, call.Value)
	for _, a := range call.Args {
		args = append(args, ex.get(fr, a))
	}
	return fn, args
}

type invokeTarget struct {
	method *types.Func
	ifaceT types.Type
}

type builtinTarget struct {
	name     string
	argTypes []types.Type
	sig      *types.Signature
	resT     *types.Tuple
}

func (ex *Exec) doCall(g *Goroutine, fr *Frame, in ssa.Instruction, call *ssa.CallCommon, retIdx int) bool {
	fn, args := ex.prepareCall(fr, call)
	site := &callSite{fn: fr.fn, instr: in, pos: in.Pos()}
	pushed := ex.invokeAt(g, fr, fn, args, retIdx, site)
	if g.status == gBlocked {
		return true
	}
	if !pushed {
		fr.pc++
	}
	return ex.yieldAfterCall
}

func (ex *Exec) invoke(g *Goroutine, fr *Frame, fn Value, args []Value, retIdx int, site *callSite) {
	ex.invokeAt(g, fr, fn, args, retIdx, site)
}

// invokeAt performs the call. It returns true if a new frame was pushed (the
// result will be delivered on return); false if the call completed natively.
func (ex *Exec) invokeAt(g *Goroutine, fr *Frame, fn Value, args []Value, retIdx int, site *callSite) bool {
	ex.yieldAfterCall = false
	setRes := func(v Value) {
		if retIdx >= 0 && g.status != gBlocked {
			fr.locals[retIdx] = v
		}
	}
	switch f := fn.(type) {
	case *builtinTarget:
		setRes(ex.callBuiltin(g, fr, f, args, site))
		return false
	case *invokeTarget:
		recv, _ := args[0].(Iface)
		// interface-level intercepts (logging)
		if nf := ex.ifaceIntercept(f.ifaceT, f.method.Name()); nf != nil {
			setRes(nf(ex, g, site, args))
			return false
		}
		if recv.T == nil {
			ex.goPanic(g, fr, "nil pointer dereference (method call on nil interface "+f.method.Name()+")", site.pos)
		}
		if op, ok := recv.V.(*Opaque); ok {
			setRes(ex.opaqueInvoke(g, site, op, f.method.Name(), args))
			return false
		}
		m := ex.P.Prog.LookupMethod(recv.T, f.method.Pkg(), f.method.Name())
		if m == nil {
			panic(fmt.Sprintf("method %s not found on %s", f.method.Name(), recv.T))
		}
		args[0] = recv.V
		return ex.callFunction(g, fr, m, args, nil, retIdx, site)
	case *Closure:
		if f == nil {
			ex.goPanic(g, fr, "call of nil function", site.pos)
		}
		if f.Native != nil {
			setRes(f.Native(ex, g, args))
			return false
		}
		return ex.callFunction(g, fr, f.Fn, args, f.Env, retIdx, site)
	}
	panic(fmt.Sprintf("invoke: unexpected callee %T at %s", fn, ex.where(fr, site.pos)))
}

func (ex *Exec) callFunction(g *Goroutine, fr *Frame, fn *ssa.Function, args []Value, env []Value, retIdx int, site *callSite) bool {
	name := fn.String()
	if ex.skipInit(fn) {
		return false
	}
	if nf := ex.lookupNative(fn, name); nf != nil {
		ex.nativePushed = false
		v := nf(ex, g, site, args)
		if ex.nativePushed {
			ex.nativePushed = false
			return true
		}
		if retIdx >= 0 && g.status != gBlocked {
			fr.locals[retIdx] = v
		}
		return false
	}
	if len(fn.Blocks) == 0 {
		panic(unsupported("call of external function %s at %s", name, ex.where(fr, site.pos)))
	}
	nf := ex.newFrame(fn, args, env)
	nf.retTo = retIdx
	if len(g.stack) > ex.MaxDepth {
		panic(pathEnd{"unwind: call depth exceeded in " + name})
	}
	g.stack = append(g.stack, nf)
	ex.countFn(fn)
	return true
}

// skipInit: calls of other packages' init functions from an init function are
// executed only for packages on the InitPkgs list, and once.
func (ex *Exec) skipInit(fn *ssa.Function) bool {
	if fn.Name() != "init" || fn.Pkg == nil || fn.Synthetic == "" {
		return false
	}
	path := fn.Pkg.Pkg.Path()
	if !ex.P.InitPkgs[path] || ex.initDone[path] {
		return true
	}
	ex.initDone[path] = true
	return false
}

func (ex *Exec) countFn(fn *ssa.Function) {
	if ex.FnSeen != nil {
		ex.FnSeen[fn.String()]++
	}
}

func (ex *Exec) spawn(g *Goroutine, fn Value, args []Value, pos token.Pos) *Goroutine {
	ng := &Goroutine{id: len(ex.gs), status: gReady, created: ex.where(ex.topFrame(g), pos)}
	ex.gs = append(ex.gs, ng)
	if ex.RaceMode {
		ex.raceFork(g, ng)
	}
	// a trampoline frame is not needed: push the callee directly
	switch f := fn.(type) {
	case *Closure:
		if f.Native != nil {
			// run natively right away (models only)
			f.Native(ex, ng, args)
			ng.status = gDone
			return ng
		}
		if nf := ex.lookupNative(f.Fn, f.Fn.String()); nf != nil {
			nf(ex, ng, &callSite{pos: pos}, args)
			ng.status = gDone
			return ng
		}
		fr := ex.newFrame(f.Fn, args, f.Env)
		ng.stack = append(ng.stack, fr)
		ng.name = f.Fn.String()
		ex.countFn(f.Fn)
	case *invokeTarget:
		recv := args[0].(Iface)
		m := ex.P.Prog.LookupMethod(recv.T, f.method.Pkg(), f.method.Name())
		args[0] = recv.V
		fr := ex.newFrame(m, args, nil)
		ng.stack = append(ng.stack, fr)
		ng.name = m.String()
	default:
		panic(fmt.Sprintf("spawn: %T", fn))
	}
	ex.enqueue(ng)
	return ng
}

func (ex *Exec) goroutineExit(g *Goroutine, res Value) {
	if g.id == 0 {
		ex.mainResult = res
	}
}

// ---------------------------------------------------------------------------
// builtins

func (ex *Exec) callBuiltin(g *Goroutine, fr *Frame, b *builtinTarget, args []Value, site *callSite) Value {
	c := ex.C
	switch b.name {
	case "len":
		switch x := args[0].(type) {
		case string:
			return ex.i64(int64(len(x)))
		case *SymStr:
			if x.Table == nil {
				return ex.i64(int64(len(x.Bytes)))
			}
			panic(unsupported("len of symbolic string"))
		case Slice:
			return x.lenOr0(ex)
		case Array:
			return ex.i64(int64(len(x)))
		case *ArrObj:
			return x.N
		case *Map:
			return ex.mapLen(x)
		case *Chan:
			if x == nil {
				return ex.i64(0)
			}
			return ex.i64(int64(len(x.buf)))
		case Ptr: // pointer to array
			at := b.argTypes[0].Underlying().(*types.Pointer).Elem().Underlying().(*types.Array)
			return ex.i64(at.Len())
		}
	case "cap":
		switch x := args[0].(type) {
		case Slice:
			return x.capOr0(ex)
		case Array:
			return ex.i64(int64(len(x)))
		case *ArrObj:
			return x.N
		case *Chan:
			if x == nil {
				return ex.i64(0)
			}
			return x.Cap
		case Ptr:
			at := b.argTypes[0].Underlying().(*types.Pointer).Elem().Underlying().(*types.Array)
			return ex.i64(at.Len())
		}
	case "append":
		return ex.appendOp(g, fr, b, args, site)
	case "copy":
		dst := args[0].(Slice)
		var n *Term
		switch src := args[1].(type) {
		case Slice:
			dl, sl := dst.lenOr0(ex), src.lenOr0(ex)
			n = c.Ite(c.Cmp(OSlt, dl, sl), dl, sl)
			// filling a fixed-size buffer from a functional source: decide now
			// whether the source covers it, so that the cells stay a uniform view
			if dst.Arr != nil && src.Arr != nil && dst.Arr.isDense() && !src.Arr.isDense() && dl.IsConst() && !sl.IsConst() {
				if ex.branch(c.Cmp(OSle, dl, sl), site.pos) {
					n = dl
				} else {
					n = sl
				}
			}
			if dst.Arr != nil && src.Arr != nil {
				ex.copyElems(dst.Arr, dst.Off, src.Arr, src.Off, n)
			}
		case string:
			sl := ex.i64(int64(len(src)))
			dl := dst.lenOr0(ex)
			n = c.Ite(c.Cmp(OSlt, dl, sl), dl, sl)
			if dst.Arr != nil {
				tmp := ex.bytesValue([]byte(src))
				ex.copyElems(dst.Arr, dst.Off, tmp.Arr, tmp.Off, n)
			}
		default:
			panic(unsupported("copy from %T", args[1]))
		}
		return n
	case "close":
		ex.chanClose(g, args[0].(*Chan), site.pos)
		ex.yieldAfterCall = true
		return nil
	case "delete":
		m := args[0].(*Map)
		if m != nil {
			ex.mapDelete(m, args[1])
		}
		return nil
	case "print", "println":
		return nil
	case "recover":
		return Iface{}
	case "panic":
		ex.goPanic(g, fr, "panic: "+ex.show(args[0]), site.pos)
	case "min", "max":
		res := args[0].(*Term)
		signed := isSigned(b.argTypes[0])
		for _, a := range args[1:] {
			t := a.(*Term)
			var lt *Term
			if res.Sort.K == KFP {
				lt = c.FPCmp(OFPLt, t, res)
			} else if signed {
				lt = c.Cmp(OSlt, t, res)
			} else {
				lt = c.Cmp(OUlt, t, res)
			}
			if b.name == "max" {
				lt = c.Not(c.Or(lt, ex.eqValue(t, res)))
			}
			res = c.Ite(lt, t, res)
		}
		return res
	case "clear":
		switch x := args[0].(type) {
		case *Map:
			if x != nil {
				x.entries = nil
				x.strIdx = nil
			}
		case Slice:
			if x.Arr != nil {
				z := Slice{Arr: ex.newSym(x.Arr.Elem, x.Len, symZero{}), Off: ex.i64(0), Len: x.Len, Cap: x.Len}
				ex.copyElems(x.Arr, x.Off, z.Arr, z.Off, x.Len)
			}
		}
		return nil
	case "ssa:wrapnilchk":
		p, ok := args[0].(Ptr)
		if ok && p.IsNil() {
			ex.goPanic(g, fr, "value method called using nil pointer", site.pos)
		}
		return args[0]
	}
	panic(unsupported("builtin %s(%T)", b.name, args[0]))
}

// appendOp implements append(s, elems...). The second argument is always a
// slice (or string) in SSA form. Growth policy of the model: if the result does
// not fit into cap(s), a new array of exactly 2*need (dense) or need
// (functional) elements is allocated. Any capacity >= need is a legal Go
// implementation; code that depends on a specific growth formula is outside
// the claim.
func (ex *Exec) appendOp(g *Goroutine, fr *Frame, b *builtinTarget, args []Value, site *callSite) Value {
	c := ex.C
	s := args[0].(Slice)
	elem := b.argTypes[0].Underlying().(*types.Slice).Elem()
	var t Slice
	switch a := args[1].(type) {
	case Slice:
		t = a
	case string:
		t = ex.bytesValue([]byte(a))
	case nil:
		t = Slice{}
	default:
		panic(unsupported("append of %T", args[1]))
	}
	sl, tl := s.lenOr0(ex), t.lenOr0(ex)
	if tl.IsConst() && tl.Val == 0 {
		return s
	}
	need := c.Bin(OAdd, sl, tl)
	fits := c.Cmp(OSle, need, s.capOr0(ex))
	if s.Arr != nil && ex.branch(fits, site.pos) {
		if t.Arr != nil {
			ex.copyElems(s.Arr, c.Bin(OAdd, s.Off, sl), t.Arr, t.Off, tl)
		}
		return Slice{Arr: s.Arr, Off: s.Off, Len: need, Cap: s.Cap}
	}
	var ns Slice
	if k, ok := constInt(need); ok && k <= ex.MaxDense {
		ncap := k * 2
		if ncap < 8 {
			ncap = 8
		}
		ns = Slice{Arr: ex.newDense(elem, int(ncap)), Off: ex.i64(0), Len: need, Cap: ex.i64(ncap)}
	} else if sc, ok := constInt(s.capOr0(ex)); ok && tl.IsConst() && sc+int64(tl.Val) <= ex.MaxDense {
		// symbolic len over a dense array: grow to a dense array
		ncap := (sc + int64(tl.Val)) * 2
		ns = Slice{Arr: ex.newDense(elem, int(ncap)), Off: ex.i64(0), Len: need, Cap: ex.i64(ncap)}
	} else {
		ns = Slice{Arr: ex.newSym(elem, need, symZero{}), Off: ex.i64(0), Len: need, Cap: need}
	}
	if s.Arr != nil {
		ex.copyElems(ns.Arr, ex.i64(0), s.Arr, s.Off, sl)
	}
	if t.Arr != nil {
		ex.copyElems(ns.Arr, sl, t.Arr, t.Off, tl)
	}
	return ns
}
