// maps.go: maps as association lists with (possibly symbolic) keys, range
// iterators.
package sym

import (
	"go/token"
	"fmt"
	"go/types"

	"golang.org/x/tools/go/ssa"
)

func (ex *Exec) keyEq(a, b Value) *Term { return ex.eqValue(a, b) }

func isConcreteKey(k Value) (string, bool) {
	if s, ok := k.(string); ok {
		return s, true
	}
	return "", false
}

func (ex *Exec) mapUpdate(m *Map, k, v Value) {
	k = copyVal(k)
	v = copyVal(v)
	if s, ok := isConcreteKey(k); ok && (m.strIdx != nil || len(m.entries) == 0) {
		if m.strIdx == nil {
			m.strIdx = map[string]int{}
		}
		if i, ok := m.strIdx[s]; ok {
			m.entries[i].val = v
			m.entries[i].present = ex.C.True()
			return
		}
		m.strIdx[s] = len(m.entries)
		m.entries = append(m.entries, &mapEntry{key: k, val: v, present: ex.C.True()})
		return
	}
	if m.strIdx != nil {
		panic(unsupported("symbolic key into string-indexed map"))
	}
	// kill older entries with an equal key
	for _, e := range m.entries {
		eq := ex.keyEq(e.key, k)
		if eq.IsFalse() {
			continue
		}
		if eq.IsTrue() {
			e.val = v
			e.present = ex.C.True()
			return
		}
		e.present = ex.C.And(e.present, ex.C.Not(eq))
	}
	m.entries = append(m.entries, &mapEntry{key: k, val: v, present: ex.C.True()})
}

func (ex *Exec) mapDelete(m *Map, k Value) {
	if s, ok := isConcreteKey(k); ok && m.strIdx != nil {
		if i, ok := m.strIdx[s]; ok {
			m.entries[i].present = ex.C.False()
		}
		return
	}
	for _, e := range m.entries {
		eq := ex.keyEq(e.key, k)
		e.present = ex.C.And(e.present, ex.C.Not(eq))
	}
}

// mapGet returns (value, found).
func (ex *Exec) mapGet(m *Map, k Value, valT types.Type) (Value, *Term) {
	zero := ex.zero(valT)
	if m == nil {
		return zero, ex.C.False()
	}
	if ss, ok := k.(*SymStr); ok && m.strIdx != nil && ss.Table != nil {
		return ex.mapGetSymStr(m, ss, valT)
	}
	if s, ok := isConcreteKey(k); ok && m.strIdx != nil {
		if i, ok := m.strIdx[s]; ok {
			e := m.entries[i]
			v, okm := ex.merge(e.present, e.val, zero)
			if !okm {
				panic(unsupported("unmergeable map value"))
			}
			return copyVal(v), e.present
		}
		return zero, ex.C.False()
	}
	found := ex.C.False()
	var res Value = zero
	for _, e := range m.entries {
		hit := ex.C.And(e.present, ex.keyEq(e.key, k))
		if hit.IsFalse() {
			continue
		}
		r, ok := ex.merge(hit, e.val, res)
		if !ok {
			// values that cannot be merged into one term (slices, pointers):
			// decide which entry is hit by forking, newest entry first (at
			// most one present entry has a given key)
			for i := len(m.entries) - 1; i >= 0; i-- {
				e := m.entries[i]
				h := ex.C.And(e.present, ex.keyEq(e.key, k))
				if h.IsFalse() {
					continue
				}
				if ex.branch(h, token.NoPos) {
					return copyVal(e.val), ex.C.True()
				}
			}
			return zero, ex.C.False()
		}
		res = r
		found = ex.C.Or(found, hit)
	}
	return copyVal(res), found
}

// mapGetSymStr: lookup of "element Idx of a table" in a map with concrete
// string keys whose values are scalars: the result is a UF-free ite chain only
// for small tables; for the word list (2048 entries) the engine checks the
// inverse-table lemma concretely and returns Idx itself when the map is the
// exact inverse of the table.
func (ex *Exec) mapGetSymStr(m *Map, ss *SymStr, valT types.Type) (Value, *Term) {
	// Is m the inverse of ss.Table (m[Table[i]] == i for all i)? Checked on the
	// real, concrete tables of this run.
	inverse := len(m.entries) == len(ss.Table)
	if inverse {
		for i, w := range ss.Table {
			j, ok := m.strIdx[w]
			if !ok {
				inverse = false
				break
			}
			e := m.entries[j]
			t, okT := e.val.(*Term)
			if !okT || !t.IsConst() || int(t.Val) != i || !e.present.IsTrue() {
				inverse = false
				break
			}
		}
	}
	if inverse {
		ex.Lemmas["inverse-table lemma: m[Table[i]]==i checked concretely for all "+fmt.Sprint(len(ss.Table))+" entries"]++
		z := ex.zero(valT).(*Term)
		return ex.C.ZExt(ex.C.Extract(ss.Idx, min(z.Sort.W, 64)-1, 0), z.Sort.W), ex.C.True()
	}
	panic(unsupported("symbolic-string lookup in a map that is not the table's inverse"))
}

func (ex *Exec) mapLen(m *Map) *Term {
	n := ex.i64(0)
	if m == nil {
		return n
	}
	for _, e := range m.entries {
		n = ex.C.Bin(OAdd, n, ex.C.Ite(e.present, ex.i64(1), ex.i64(0)))
	}
	return n
}

func (ex *Exec) lookup(g *Goroutine, fr *Frame, in *ssa.Lookup) Value {
	x := ex.get(fr, in.X)
	k := ex.get(fr, in.Index)
	switch x := x.(type) {
	case string:
		idx := ex.toInt64(k.(*Term), in.Index.Type())
		ex.check(g, fr, ex.C.Cmp(OUlt, idx, ex.i64(int64(len(x)))), "string index out of range", in.Pos())
		ki, ok := constInt(idx)
		if !ok {
			var res *Term = ex.C.Const(BV(8), 0)
			for i := len(x) - 1; i >= 0; i-- {
				res = ex.C.Ite(ex.C.Eq(idx, ex.i64(int64(i))), ex.C.Const(BV(8), uint64(x[i])), res)
			}
			return res
		}
		return ex.C.Const(BV(8), uint64(x[ki]))
	case *Map:
		valT := in.X.Type().Underlying().(*types.Map).Elem()
		v, found := ex.mapGet(x, k, valT)
		if in.CommaOk {
			return Tuple{v, found}
		}
		return v
	}
	panic(fmt.Sprintf("lookup: %T", x))
}

// ---------------------------------------------------------------------------
// range

type mapIter struct {
	m *Map
	i int
}
type strIter struct {
	s string
	i int
}

func (ex *Exec) rangeIter(x Value, t types.Type) Value {
	switch x := x.(type) {
	case *Map:
		return &mapIter{m: x}
	case string:
		return &strIter{s: x}
	}
	panic(unsupported("range over %T", x))
}

func (ex *Exec) next(it Value, in *ssa.Next) Value {
	switch it := it.(type) {
	case *mapIter:
		var kz, vz Value
		tt := in.Type().(*types.Tuple)
		kz, vz = ex.zeroOrNil(tt.At(1).Type()), ex.zeroOrNil(tt.At(2).Type())
		if it.m == nil {
			return Tuple{ex.C.False(), kz, vz}
		}
		for it.i < len(it.m.entries) {
			e := it.m.entries[it.i]
			it.i++
			if e.present.IsFalse() {
				continue
			}
			if !e.present.IsTrue() {
				if !ex.branch(e.present, in.Pos()) {
					continue
				}
			}
			return Tuple{ex.C.True(), copyVal(e.key), copyVal(e.val)}
		}
		return Tuple{ex.C.False(), kz, vz}
	case *strIter:
		if it.i >= len(it.s) {
			return Tuple{ex.C.False(), ex.i64(0), ex.C.Const(BV(32), 0)}
		}
		// decode one rune
		rs := []rune(it.s[it.i:])
		r := rs[0]
		i := it.i
		it.i += len(string(r))
		return Tuple{ex.C.True(), ex.i64(int64(i)), ex.C.Const(BV(32), uint64(r))}
	}
	panic(fmt.Sprintf("next: %T", it))
}

func (ex *Exec) zeroOrNil(t types.Type) Value {
	if b, ok := t.(*types.Basic); ok && b.Kind() == types.Invalid {
		return nil
	}
	return ex.zero(t)
}
