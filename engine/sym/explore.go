// explore.go: one path execution (Exec) and the stateless search over decision
// vectors (Explorer).
package sym

import (
	"fmt"
	"go/token"
	"io"
	"os"
	"runtime/debug"
	"sort"
	"strings"
	"sync"
	"time"

	"golang.org/x/tools/go/ssa"
)

type Options struct {
	MaxSteps    int
	MaxDepth    int
	MaxDense    int64
	SchedBudget int
	RaceMode    bool
	Horizon     int64 // virtual ns; 0 = unlimited
	MaxPaths    int
	Workers     int
	SolverName  string
	TimeoutMs   int
	LoopBound   int // max times one back-edge may be taken on a path (0 = unlimited)
	Trace       io.Writer
	StopOnFirst bool
	Known       []KnownFinding
	Params      map[string]int
	NoIfConv    bool
}

// KnownFinding identifies a recorded genuine defect: harness, a substring of
// the violation message, and a predicate over named inputs. Violations inside
// the predicate are printed as KNOWN-FINDING; the solver is asked again with
// the predicate negated so that any other violation is still reported.
type KnownFinding struct {
	Property string
	Harness  string
	Msg      string
	Pred     map[string]uint64
	Text     string
}

func DefaultOptions() Options {
	return Options{MaxSteps: 2_000_000, MaxDepth: 400, MaxDense: 4096, Workers: 8, SolverName: "z3", TimeoutMs: 20000, MaxPaths: 200000}
}

type Input struct {
	Name string
	Term *Term // symbolic scalar
	Conc int64 // concrete choice (vIntRange etc.)
	IsC  bool
	// stream inputs
	Stream string
	Len    *Term
}

// Exec is the state of one path.
type Exec struct {
	P *Program
	C *Ctx
	S *Solver
	Options

	pc     []*Term
	prefix []int
	pos    int
	trail  []int
	kinds  []string
	// alternatives discovered on this path: full decision vectors
	newWork [][]int

	gs         []*Goroutine
	cur        *Goroutine
	runq       []*Goroutine
	waits      map[*Goroutine]*waitState
	blockSeq   int
	schedUsed  int
	quiesced   bool
	globals    map[*ssa.Global]*Value
	funcVals   map[*ssa.Function]*Closure
	initDone   map[string]bool
	arrAlias   map[*Value]*ArrObj
	mutexes    map[*Value]*mutexState
	wgs        map[*Value]*wgState
	onces      map[*Value]*onceState
	pools      map[*Value][]Value
	timerObjs  map[*Value]*Timer
	wraps      map[*Value]Iface
	timers     []*Timer
	Clock      int64
	SymClock   *Term
	timerSeq   int
	chanSeq    int
	mapSeq     int
	arrSeq     int
	TimerFires int
	bgCtx      *ctxObj
	errCanceled, errDeadline Value

	yieldAfterCall bool
	nativePushed   bool
	mainResult     Value

	inputs     []*Input
	nameCount  map[string]int
	Violations []*Violation
	Inconcl    []string
	Reached    map[string]bool
	Lemmas     map[string]int
	FnSeen     map[string]int
	Steps      int
	clockAtHalf int64
	Queries    int
	TraceW     io.Writer
	race       *raceState
	ideal      *idealState
	ghost      map[string]Value
	concrete   map[int]int64
	guard      *Term
	mainLastRun int64
	tables     map[*Value][]string
	IfConverted int
	views      map[string]*viewDef
	viewSeq    int
	viewDefMemo map[int]*Term
	harness    string
	endReason  string
	lastModel  map[string]interface{}
}

func (ex *Exec) replaying() bool { return ex.pos < len(ex.prefix) }

func (ex *Exec) pcCopy() []*Term { return append([]*Term(nil), ex.pc...) }

func (ex *Exec) addPC(t *Term) {
	if t.IsTrue() {
		return
	}
	ex.pc = append(ex.pc, t)
}

// decide consumes one decision. forced >= 0 records a decision without
// alternatives (used for run-time checks); otherwise n alternatives are all
// considered feasible, alternative 0 is taken first.
func (ex *Exec) decide(forced int, n int, kind string) int {
	if ex.pos < len(ex.prefix) {
		c := ex.prefix[ex.pos]
		ex.pos++
		ex.trail = append(ex.trail, c)
		return c
	}
	c := 0
	if forced >= 0 {
		c = forced
	} else {
		for alt := 1; alt < n; alt++ {
			v := append(append([]int(nil), ex.trail...), alt)
			ex.newWork = append(ex.newWork, v)
		}
	}
	ex.prefix = append(ex.prefix, c)
	ex.pos++
	ex.trail = append(ex.trail, c)
	return c
}

// branch decides a symbolic condition; returns the side taken on this path.
func (ex *Exec) branch(cond *Term, pos token.Pos) bool {
	if cond.IsTrue() {
		return true
	}
	if cond.IsFalse() {
		return false
	}
	if ex.pos < len(ex.prefix) {
		c := ex.prefix[ex.pos]
		ex.pos++
		ex.trail = append(ex.trail, c)
		if c == 1 {
			ex.addPC(cond)
			return true
		}
		ex.addPC(ex.C.Not(cond))
		return false
	}
	rt, _ := ex.solve(append(ex.pcCopy(), cond), false)
	rf, _ := ex.solve(append(ex.pcCopy(), ex.C.Not(cond)), false)
	tOK, fOK := rt != Unsat, rf != Unsat
	if !tOK && !fOK {
		panic(pathEnd{"infeasible"})
	}
	take := tOK
	if tOK && fOK {
		v := append(append([]int(nil), ex.trail...), 0)
		ex.newWork = append(ex.newWork, v)
	}
	c := 0
	if take {
		c = 1
	}
	ex.prefix = append(ex.prefix, c)
	ex.pos++
	ex.trail = append(ex.trail, c)
	if take {
		ex.addPC(cond)
	} else {
		ex.addPC(ex.C.Not(cond))
	}
	return take
}

// concretize enumerates the feasible values of t (decision = value index in
// discovery order is not stable across re-execution, so the decision records
// the value itself).
func (ex *Exec) concretize(t *Term, what string) int64 {
	return ex.concretizeN(t, what, 4096)
}

// concretizeN: as concretize, giving up (unsupported) beyond `limit` values.
func (ex *Exec) concretizeN(t *Term, what string, limit int) int64 {
	if k, ok := constInt(t); ok {
		return k
	}
	if ex.pos < len(ex.prefix) {
		v := ex.prefix[ex.pos]
		ex.pos++
		ex.trail = append(ex.trail, v)
		ex.addPC(ex.C.Eq(t, ex.C.Const(t.Sort, uint64(int64(v)))))
		return int64(v)
	}
	// enumerate all feasible values (bounded)
	var vals []int64
	cons := ex.pcCopy()
	for len(vals) < limit {
		res, _ := ex.solve(cons, false)
		if res != Sat {
			if res == Unknown {
				ex.inconclusive("concretize " + what + ": solver unknown")
			}
			break
		}
		m, err := ex.S.Values(ex.C, []*Term{t})
		if err != nil {
			ex.inconclusive("concretize: " + err.Error())
			break
		}
		v := sext64(m[t.ID], t.Sort.W)
		vals = append(vals, v)
		cons = append(cons, ex.C.Not(ex.C.Eq(t, ex.C.Const(t.Sort, uint64(v)))))
	}
	if len(vals) == 0 {
		panic(pathEnd{"infeasible"})
	}
	if len(vals) >= limit {
		panic(unsupported("concretize %s: more than %d feasible values", what, limit))
	}
	for _, v := range vals[1:] {
		w := append(append([]int(nil), ex.trail...), int(v))
		ex.newWork = append(ex.newWork, w)
	}
	v := vals[0]
	ex.prefix = append(ex.prefix, int(v))
	ex.pos++
	ex.trail = append(ex.trail, int(v))
	ex.addPC(ex.C.Eq(t, ex.C.Const(t.Sort, uint64(v))))
	return v
}

// solve runs a query; with wantModel it also extracts the named inputs.
//
// Constraint independence: the path condition is kept satisfiable at all times
// (every conjunct is added only after a feasibility query, vAssume included),
// so conjuncts that share no symbol - transitively - with the last
// `extra` terms of cons cannot influence the verdict and are left out. When a
// model is wanted and the sliced query is Sat, the full query is asked so that
// the model covers every input.
func (ex *Exec) solve(cons []*Term, wantModel bool) (Result, map[string]interface{}) {
	ex.Queries++
	npc := len(ex.pc)
	if len(ex.views) > 0 {
		if defs := ex.viewDefs(cons); len(defs) > 0 {
			// definitions go in front so that the pc/extra split below still holds
			return ex.solveWithDefs(cons, defs, wantModel)
		}
	}
	if len(cons) >= npc && npc > 0 && sameHead(cons, ex.pc) && len(cons) > npc {
		sl := ex.slice(cons[:npc], cons[npc:])
		ex.S.NeedModel = wantModel && len(sl) == len(cons)
		res := ex.S.Check(ex.C, sl)
		ex.S.NeedModel = false
		if res != Sat || !wantModel {
			return res, nil
		}
		if len(sl) == len(cons) {
			return res, ex.model()
		}
		ex.Queries++
	}
	ex.S.NeedModel = wantModel
	res := ex.S.Check(ex.C, cons)
	ex.S.NeedModel = false
	if res != Sat || !wantModel {
		return res, nil
	}
	return res, ex.model()
}

// viewDefs returns view!k(i) = content[off+i] for every view application that
// occurs in ts (transitively through the definitions themselves).
func (ex *Exec) viewDefs(ts []*Term) []*Term {
	if ex.viewDefMemo == nil {
		ex.viewDefMemo = map[int]*Term{}
	}
	var defs []*Term
	seen := map[int]bool{}
	var visit func(t *Term)
	visit = func(t *Term) {
		if seen[t.ID] {
			return
		}
		seen[t.ID] = true
		if t.Op == OUF && len(t.Args) == 1 {
			if v := ex.viewOf(t.Name); v != nil {
				d, ok := ex.viewDefMemo[t.ID]
				if !ok {
					d = ex.C.Eq(t, ex.resolveView(t))
					ex.viewDefMemo[t.ID] = d
				}
				defs = append(defs, d)
				visit(d)
			}
		}
		for _, a := range t.Args {
			visit(a)
		}
	}
	for _, t := range ts {
		visit(t)
	}
	return defs
}

func (ex *Exec) solveWithDefs(cons, defs []*Term, wantModel bool) (Result, map[string]interface{}) {
	npc := len(ex.pc)
	if len(cons) > npc && npc > 0 && sameHead(cons, ex.pc) {
		sl := ex.slice(append(append([]*Term(nil), cons[:npc]...), defs...), cons[npc:])
		ex.S.NeedModel = wantModel && len(sl) == len(cons)+len(defs)
		res := ex.S.Check(ex.C, sl)
		ex.S.NeedModel = false
		if res != Sat || !wantModel {
			return res, nil
		}
		if len(sl) == len(cons)+len(defs) {
			return res, ex.model()
		}
		ex.Queries++
	}
	all := append(append([]*Term(nil), cons...), defs...)
	ex.S.NeedModel = wantModel
	res := ex.S.Check(ex.C, all)
	ex.S.NeedModel = false
	if res != Sat || !wantModel {
		return res, nil
	}
	return res, ex.model()
}

func sameHead(cons, pc []*Term) bool {
	for i := range pc {
		if cons[i] != pc[i] {
			return false
		}
	}
	return true
}

// slice returns extra plus the conjuncts of pc connected to extra through
// shared symbols.
func (ex *Exec) slice(pc []*Term, extra []*Term) []*Term {
	syms := map[int]bool{}
	for _, e := range extra {
		for _, s := range ex.C.SymbolsOf(e) {
			syms[s] = true
		}
	}
	used := make([]bool, len(pc))
	for changed := true; changed; {
		changed = false
		for i, t := range pc {
			if used[i] {
				continue
			}
			ss := ex.C.SymbolsOf(t)
			hit := false
			for _, s := range ss {
				if syms[s] {
					hit = true
					break
				}
			}
			if hit {
				used[i] = true
				changed = true
				for _, s := range ss {
					syms[s] = true
				}
			}
		}
	}
	var out []*Term
	for i, t := range pc {
		if used[i] {
			out = append(out, t)
		}
	}
	return append(out, extra...)
}

// model reads the values of all named inputs from the solver's current model.
func (ex *Exec) model() map[string]interface{} {
	m := map[string]interface{}{}
	var ts []*Term
	for _, in := range ex.inputs {
		if in.Term != nil {
			ts = append(ts, in.Term)
		}
		if in.Len != nil {
			ts = append(ts, in.Len)
		}
	}
	vals, err := ex.S.Values(ex.C, ts)
	if err != nil {
		ex.inconclusive("model extraction: " + err.Error())
		return m
	}
	for _, in := range ex.inputs {
		switch {
		case in.IsC:
			m[in.Name] = in.Conc
		case in.Stream != "":
			n := vals[in.Len.ID]
			if n > 512 {
				n = 512
			}
			var idx []*Term
			for i := uint64(0); i < n; i++ {
				idx = append(idx, ex.C.UF(in.Stream, BV(8), ex.u64(i)))
			}
			bv, err := ex.S.Values(ex.C, idx)
			bs := make([]int, n)
			if err == nil {
				for i, t := range idx {
					bs[i] = int(bv[t.ID])
				}
			}
			m[in.Name] = map[string]interface{}{"len": vals[in.Len.ID], "bytes": bs}
		default:
			v := vals[in.Term.ID]
			if in.Term.Sort.K == KBV && in.Term.Sort.W == 64 {
				m[in.Name] = fmt.Sprint(v) // keep 64-bit values exact in JSON
			} else {
				m[in.Name] = v
			}
		}
	}
	m["@trail"] = append([]int(nil), ex.trail...)
	for k, v := range ex.Params {
		m["@param:"+k] = v
	}
	return m
}

func (ex *Exec) report(v *Violation) {
	if v.Model == nil {
		// violation on the current path: any model of the path condition is a witness
		ex.findViolation(ex.C.True(), v.Kind, v.Msg, v.Where)
		return
	}
	v.Trail = append([]int(nil), ex.trail...)
	v.Harness = ex.harness
	ex.Violations = append(ex.Violations, v)
}

// predTerm turns a known-finding predicate into a term over the inputs of this
// path; ok=false if an input named by the predicate does not exist here.
func (ex *Exec) predTerm(k KnownFinding) (*Term, bool) {
	t := ex.C.True()
	for name, val := range k.Pred {
		var in *Input
		for _, i := range ex.inputs {
			if i.Name == name {
				in = i
				break
			}
		}
		if in == nil {
			return nil, false
		}
		if in.IsC {
			t = ex.C.And(t, ex.C.Bool(uint64(in.Conc) == val))
		} else if in.Term != nil {
			t = ex.C.And(t, ex.C.Eq(in.Term, ex.C.Const(in.Term.Sort, val)))
		} else {
			return nil, false
		}
	}
	return t, true
}

// findViolation asks the solver for a witness of pc ∧ neg. Witnesses inside a
// known finding are recorded as such; the query is repeated outside all known
// predicates.
func (ex *Exec) findViolation(neg *Term, kind, msg, where string) {
	if ex.replaying() {
		return
	}
	excl := ex.C.True()
	for _, k := range ex.Known {
		if k.Harness != ex.harness || !strings.Contains(msg, k.Msg) {
			continue
		}
		pt, ok := ex.predTerm(k)
		if !ok {
			continue
		}
		res, model := ex.solve(append(ex.pcCopy(), neg, pt), true)
		if res == Sat {
			ex.Violations = append(ex.Violations, &Violation{Kind: kind, Msg: msg, Where: where, Model: model,
				Trail: append([]int(nil), ex.trail...), Harness: ex.harness, Known: k.Text, KnownProp: k.Property})
		}
		excl = ex.C.And(excl, ex.C.Not(pt))
	}
	res, model := ex.solve(append(ex.pcCopy(), neg, excl), true)
	switch res {
	case Sat:
		ex.Violations = append(ex.Violations, &Violation{Kind: kind, Msg: msg, Where: where, Model: model,
			Trail: append([]int(nil), ex.trail...), Harness: ex.harness})
	case Unknown:
		ex.inconclusive(kind + " '" + msg + "' at " + where + ": solver answered unknown (" + ex.S.LastErr + ")")
	}
}

func (ex *Exec) inconclusive(msg string) {
	ex.Inconcl = append(ex.Inconcl, msg)
}

// ---------------------------------------------------------------------------

type PathResult struct {
	Violations []*Violation
	Inconcl    []string
	NewWork    [][]int
	Reached    map[string]bool
	Lemmas     map[string]int
	FnSeen     map[string]int
	Steps      int
	Queries    int
	End        string
	Trail      []int
	Unsupported string
	SchedUsed  int
	TimerFires int
	Goroutines int
}

// RunPath executes harness fn under the decision prefix.
func RunPath(p *Program, fn *ssa.Function, prefix []int, s *Solver, opt Options) (res *PathResult) {
	ex := &Exec{
		P: p, C: NewCtx(), S: s, Options: opt,
		prefix:    append([]int(nil), prefix...),
		waits:     map[*Goroutine]*waitState{},
		globals:   map[*ssa.Global]*Value{},
		funcVals:  map[*ssa.Function]*Closure{},
		initDone:  map[string]bool{},
		arrAlias:  map[*Value]*ArrObj{},
		mutexes:   map[*Value]*mutexState{},
		wgs:       map[*Value]*wgState{},
		onces:     map[*Value]*onceState{},
		pools:     map[*Value][]Value{},
		timerObjs: map[*Value]*Timer{},
		wraps:     map[*Value]Iface{},
		nameCount: map[string]int{},
		Reached:   map[string]bool{},
		Lemmas:    map[string]int{},
		FnSeen:    map[string]int{},
		ghost:     map[string]Value{},
		concrete:  map[int]int64{},
		harness:   fn.Name(),
		TraceW:    opt.Trace,
	}
	if opt.RaceMode {
		ex.race = newRaceState()
	}
	res = &PathResult{}
	defer func() {
		if r := recover(); r != nil {
			switch e := r.(type) {
			case pathEnd:
				ex.endReason = e.reason
				if strings.HasPrefix(e.reason, "unwind") {
					ex.inconclusive(e.reason)
				}
			case unsupportedErr:
				res.Unsupported = e.msg + " @ " + ex.curWhere()
			case needConcretize:
				res.Unsupported = "symbolic index over non-scalar elements @ " + ex.curWhere()
			default:
				res.Unsupported = fmt.Sprintf("engine panic: %v @ %s\n%s", r, ex.curWhere(), debug.Stack())
			}
		}
		res.Violations = ex.Violations
		res.Inconcl = ex.Inconcl
		res.NewWork = ex.newWork
		res.Reached = ex.Reached
		res.Lemmas = ex.Lemmas
		res.FnSeen = ex.FnSeen
		res.Steps = ex.Steps
		res.Queries = ex.Queries
		res.End = ex.endReason
		res.Trail = ex.trail
		res.SchedUsed = ex.schedUsed
		res.TimerFires = ex.TimerFires
		res.Goroutines = len(ex.gs)
	}()
	main := &Goroutine{id: 0, status: gReady, name: "main"}
	ex.gs = append(ex.gs, main)
	if opt.RaceMode {
		ex.raceInit(main)
	}
	// package initialisers, then the harness
	ex.runInits(main)
	main.stack = append(main.stack, ex.newFrame(fn, nil, nil))
	ex.cur = main
	ex.loop()
	if ex.endReason == "" {
		ex.endReason = "returned"
	}
	return res
}

func (ex *Exec) curWhere() string {
	g := ex.cur
	if g == nil && len(ex.gs) > 0 {
		g = ex.gs[0]
	}
	if g == nil {
		return "?"
	}
	return ex.stackString(g)
}

// runInits executes the init functions of the packages on the InitPkgs list
// (dependencies first, each once), sequentially on the main goroutine.
func (ex *Exec) runInits(main *Goroutine) {
	var paths []string
	for p := range ex.P.InitPkgs {
		paths = append(paths, p)
	}
	sort.Strings(paths)
	// the main package's init pulls in its (listed) dependencies itself; run
	// listed packages that main does not import afterwards.
	order := append([]string{}, paths...)
	for _, path := range order {
		if ex.initDone[path] {
			continue
		}
		pkg := ex.P.Prog.ImportedPackage(path)
		if pkg == nil {
			continue
		}
		initFn := pkg.Func("init")
		if initFn == nil || len(initFn.Blocks) == 0 {
			continue
		}
		ex.initDone[path] = true
		main.stack = append(main.stack, ex.newFrame(initFn, nil, nil))
		main.status = gReady
		ex.cur = main
		for len(main.stack) > 0 {
			ex.runGoroutine(main)
			if main.status == gBlocked {
				panic(unsupported("package init of %s blocks", path))
			}
		}
		main.status = gReady
	}
	ex.Steps = 0
}

// ---------------------------------------------------------------------------
// Explorer: depth-first search over decision vectors, parallel workers.

type HarnessResult struct {
	Name        string
	Paths       int
	Steps       int
	Queries     int
	Violations  []*Violation
	Inconcl     []string
	Unsupported []string
	Reached     map[string]bool
	Lemmas      map[string]int
	FnSeen      map[string]int
	Ends        map[string]int
	SolverTime  time.Duration
	Wall        time.Duration
	Truncated   bool
	SamplePaths [][]int
	MaxGoroutines int
	TimerFires  int
}

func Explore(p *Program, fn *ssa.Function, opt Options) *HarnessResult {
	start := time.Now()
	hr := &HarnessResult{Name: fn.Name(), Reached: map[string]bool{}, Lemmas: map[string]int{}, FnSeen: map[string]int{}, Ends: map[string]int{}}
	var mu sync.Mutex
	cache := &sync.Map{}
	work := [][]int{nil}
	active := 0
	cond := sync.NewCond(&mu)
	stop := false
	nw := opt.Workers
	if nw < 1 {
		nw = 1
	}
	var wg sync.WaitGroup
	for w := 0; w < nw; w++ {
		wg.Add(1)
		go func() {
			defer wg.Done()
			s, err := NewSolver(opt.SolverName, opt.TimeoutMs)
			if err == nil {
				s.Cache = cache
			}
			if err != nil {
				mu.Lock()
				hr.Unsupported = append(hr.Unsupported, "cannot start solver: "+err.Error())
				stop = true
				cond.Broadcast()
				mu.Unlock()
				return
			}
			defer func() {
				mu.Lock()
				hr.SolverTime += s.SolveTime
				mu.Unlock()
				s.Close()
			}()
			for {
				mu.Lock()
				for len(work) == 0 && active > 0 && !stop {
					cond.Wait()
				}
				if stop || (len(work) == 0 && active == 0) {
					mu.Unlock()
					cond.Broadcast()
					return
				}
				prefix := work[len(work)-1]
				work = work[:len(work)-1]
				active++
				mu.Unlock()

				r := RunPath(p, fn, prefix, s, opt)

				mu.Lock()
				active--
				hr.Paths++
				hr.Steps += r.Steps
				hr.Queries += r.Queries
				hr.Ends[r.End]++
				hr.TimerFires += r.TimerFires
				if r.Goroutines > hr.MaxGoroutines {
					hr.MaxGoroutines = r.Goroutines
				}
				if len(hr.SamplePaths) < 3 {
					hr.SamplePaths = append(hr.SamplePaths, r.Trail)
				}
				for k := range r.Reached {
					hr.Reached[k] = true
				}
				for k, v := range r.Lemmas {
					hr.Lemmas[k] += v
				}
				for k, v := range r.FnSeen {
					hr.FnSeen[k] += v
				}
				hr.Violations = append(hr.Violations, r.Violations...)
				hr.Inconcl = append(hr.Inconcl, r.Inconcl...)
				if r.Unsupported != "" {
					hr.Unsupported = append(hr.Unsupported, r.Unsupported)
				}
				work = append(work, r.NewWork...)
				if hr.Paths+len(work) > opt.MaxPaths && opt.MaxPaths > 0 && hr.Paths >= opt.MaxPaths {
					hr.Truncated = true
					stop = true
				}
				if opt.StopOnFirst && len(hr.Violations) > 0 {
					stop = true
				}
				// a broken tree can make almost every path a counterexample:
				// a few hundred (not counting recorded known findings) are
				// more than the replay needs; stop and say so
				fresh := 0
				for _, v := range hr.Violations {
					if v.Known == "" {
						fresh++
					}
				}
				if fresh >= 400 {
					hr.Truncated = true
					stop = true
				}
				if len(hr.Unsupported) > 20 {
					stop = true
				}
				cond.Broadcast()
				mu.Unlock()
			}
		}()
	}
	wg.Wait()
	hr.Wall = time.Since(start)
	return hr
}

func dbg(format string, args ...interface{}) {
	if os.Getenv("GOSYM_DEBUG") != "" {
		fmt.Fprintf(os.Stderr, format+"\n", args...)
	}
}
