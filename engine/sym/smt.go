// smt.go: SMT-LIB2 back end. One long-lived solver process per Solver
// (push/pop per query). Any "(error" line or "unknown" is inconclusive.
package sym

import (
	"bufio"
	"crypto/sha256"
	"os"
	"sync"
	"fmt"
	"io"
	"os/exec"
	"sort"
	"strconv"
	"strings"
	"time"
)

var slowMs, slowN int

func init() {
	if v := os.Getenv("GOSYM_SLOW"); v != "" {
		slowMs, _ = strconv.Atoi(v)
	}
}

type Result int

const (
	Unsat Result = iota
	Sat
	Unknown
)

func (r Result) String() string {
	return [...]string{"unsat", "sat", "unknown"}[r]
}

type Solver struct {
	Name      string // z3 | z3-new | cvc5
	cmd       *exec.Cmd
	in        io.WriteCloser
	out       *bufio.Reader
	frameOpen bool
	dirty     bool
	TimeoutMs int

	Queries   int
	SatN      int
	UnsatN    int
	UnknownN  int
	SolveTime time.Duration
	LastErr   string
	Cache     *sync.Map // shared verdict cache keyed by query text (optional)
	NeedModel bool      // set by the caller when the model of this query is needed
	CacheHits int
	Trace     io.Writer // optional: dump of everything sent
	bin       string
	alt       *Solver // portfolio partner
	last      *Solver // process holding the model of the last Sat answer
	PortWins  [2]int
	Fallbacks int
}

// restart replaces a (killed) solver process by a fresh one.
func (s *Solver) restart() {
	if s.cmd != nil && s.cmd.Process != nil {
		s.cmd.Process.Kill()
		s.cmd.Wait()
	}
	n, err := NewSolver(s.bin, s.TimeoutMs)
	if err != nil {
		s.LastErr = "restart failed: " + err.Error()
		return
	}
	s.cmd, s.in, s.out = n.cmd, n.in, n.out
	s.frameOpen, s.dirty = false, false
}

// NewSolver starts a solver. The name "portfolio" runs z3 4.8.12 and z3 5.1.0
// side by side on large queries and takes the first definitive answer (their
// running times on the interval-arithmetic queries of the record-layer
// harnesses differ by an order of magnitude in both directions); small
// queries go to z3 4.8.12 incrementally.
func NewSolver(name string, timeoutMs int) (*Solver, error) {
	if name == "portfolio" {
		a, err := NewSolver("z3", timeoutMs)
		if err != nil {
			return nil, err
		}
		b, err := NewSolver("z3-new", timeoutMs)
		if err != nil {
			a.Close()
			return nil, err
		}
		a.alt = b
		a.Name = "portfolio"
		a.bin = "z3"
		return a, nil
	}
	var cmd *exec.Cmd
	switch name {
	case "z3", "z3-new":
		cmd = exec.Command(name, "-in", "-smt2")
	case "cvc5":
		cmd = exec.Command("cvc5", "--incremental", "--lang=smt2", "--produce-models",
			fmt.Sprintf("--tlimit-per=%d", timeoutMs))
	default:
		return nil, fmt.Errorf("unknown solver %q", name)
	}
	in, err := cmd.StdinPipe()
	if err != nil {
		return nil, err
	}
	outp, err := cmd.StdoutPipe()
	if err != nil {
		return nil, err
	}
	cmd.Stderr = nil
	if err := cmd.Start(); err != nil {
		return nil, err
	}
	s := &Solver{Name: name, bin: name, cmd: cmd, in: in, out: bufio.NewReaderSize(outp, 1<<20), TimeoutMs: timeoutMs}
	if name == "cvc5" {
		s.send("(set-logic ALL)\n")
	} else {
		s.send(fmt.Sprintf("(set-option :timeout %d)\n", timeoutMs))
	}
	s.send("(set-option :produce-models true)\n")
	return s, nil
}

func (s *Solver) Close() {
	if s == nil || s.cmd == nil {
		return
	}
	if s.alt != nil {
		s.alt.Close()
	}
	s.in.Close()
	done := make(chan struct{})
	go func() { s.cmd.Wait(); close(done) }()
	select {
	case <-done:
	case <-time.After(2 * time.Second):
		s.cmd.Process.Kill()
	}
	s.cmd = nil
}

func (s *Solver) send(txt string) {
	if s.Trace != nil {
		io.WriteString(s.Trace, txt)
	}
	io.WriteString(s.in, txt)
}

// collect returns the sub-terms of roots in topological order (args first).
func collect(roots []*Term) []*Term {
	seen := map[int]bool{}
	var order []*Term
	var stack []*Term
	type fr struct {
		t *Term
		i int
	}
	for _, r := range roots {
		if seen[r.ID] {
			continue
		}
		st := []fr{{r, 0}}
		seen[r.ID] = true
		for len(st) > 0 {
			top := &st[len(st)-1]
			if top.i < len(top.t.Args) {
				a := top.t.Args[top.i]
				top.i++
				if !seen[a.ID] {
					seen[a.ID] = true
					st = append(st, fr{a, 0})
				}
				continue
			}
			order = append(order, top.t)
			st = st[:len(st)-1]
		}
	}
	_ = stack
	return order
}

// emit writes declarations and definitions for all sub-terms of roots and
// returns the name to use for each root.
func emit(sb *strings.Builder, ctx *Ctx, roots []*Term) map[int]string {
	order := collect(roots)
	// reference counts to decide what gets its own define-fun
	refs := map[int]int{}
	for _, t := range order {
		for _, a := range t.Args {
			refs[a.ID]++
		}
	}
	for _, r := range roots {
		refs[r.ID] += 2
	}
	names := map[int]string{}
	ufDone := map[string]bool{}
	var expr func(t *Term) string
	expr = func(t *Term) string {
		if n, ok := names[t.ID]; ok {
			return n
		}
		switch t.Op {
		case OConst:
			return constString(t)
		case OVar:
			return smtName(t.Name)
		}
		var b strings.Builder
		if t.Op == OUF && len(t.Args) == 0 {
			return t.head()
		}
		b.WriteByte('(')
		b.WriteString(t.head())
		for _, a := range t.Args {
			b.WriteByte(' ')
			b.WriteString(expr(a))
		}
		b.WriteByte(')')
		return b.String()
	}
	for _, t := range order {
		switch t.Op {
		case OVar:
			fmt.Fprintf(sb, "(declare-fun %s () %s)\n", smtName(t.Name), t.Sort)
			continue
		case OConst:
			continue
		case OUF:
			if !ufDone[t.Name] {
				ufDone[t.Name] = true
				sig := ctx.UFs[t.Name]
				var as []string
				for _, a := range sig.Args {
					as = append(as, a.String())
				}
				fmt.Fprintf(sb, "(declare-fun %s (%s) %s)\n", smtName(t.Name), strings.Join(as, " "), sig.Res)
			}
		}
		if refs[t.ID] > 1 {
			e := expr(t)
			n := "t" + strconv.Itoa(t.ID)
			fmt.Fprintf(sb, "(define-fun %s () %s %s)\n", n, t.Sort, e)
			names[t.ID] = n
		}
	}
	res := map[int]string{}
	for _, r := range roots {
		res[r.ID] = expr(r)
	}
	return res
}

// Check decides the conjunction of assertions. The solver frame stays open
// until the next Check so that Values can be called after Sat.
func (s *Solver) Check(ctx *Ctx, assertions []*Term) Result {
	// constant shortcuts
	var as []*Term
	for _, a := range assertions {
		if a.IsFalse() {
			return Unsat
		}
		if a.IsTrue() {
			continue
		}
		as = append(as, a)
	}
	start := time.Now()
	var body strings.Builder
	names := emit(&body, ctx, as)
	for _, a := range as {
		fmt.Fprintf(&body, "(assert %s)\n", names[a.ID])
	}
	body.WriteString("(check-sat)\n")
	text := body.String()
	hasFP := strings.Contains(text, "FloatingPoint") || len(text) > 6000
	var key [32]byte
	if s.Cache != nil && !s.NeedModel {
		key = sha256.Sum256([]byte(text))
		if v, ok := s.Cache.Load(key); ok {
			s.CacheHits++
			return v.(Result)
		}
	}
	s.Queries++
	s.last = s
	var res Result
	large := hasFP
	if !large && s.bin != "cvc5" {
		// small query: incremental core with a short time limit; its verdicts
		// are fine but it gives up on some arithmetic the tactic pipeline
		// decides at once, so unknown falls through to the non-incremental mode
		res = s.runTextT(text, false, 1500)
		if res == Unknown {
			large = true
			s.Fallbacks++
		}
	}
	if large || s.bin == "cvc5" {
		if s.alt != nil {
			res = s.portfolio(text)
		} else {
			res = s.runTextT(text, s.bin != "cvc5", s.TimeoutMs)
		}
	}
	s.SolveTime += time.Since(start)
	if s.Cache != nil && res != Unknown {
		if !s.NeedModel {
			s.Cache.Store(key, res)
		} else {
			s.Cache.Store(sha256.Sum256([]byte(text)), res)
		}
	}
	if d := time.Since(start); slowMs > 0 && d > time.Duration(slowMs)*time.Millisecond {
		slowN++
		fn := fmt.Sprintf("/tmp/gosym-slow-%d-%d.smt2", os.Getpid(), slowN)
		os.WriteFile(fn, []byte(text), 0o644)
		fmt.Fprintf(os.Stderr, "SLOW query %v -> %s (%s)\n", d, res, fn)
	}
	switch res {
	case Sat:
		s.SatN++
	case Unsat:
		s.UnsatN++
	default:
		s.UnknownN++
	}
	return res
}

// runText sends one query to this process and reads the verdict. large
// queries use (reset), which puts z3 back into its non-incremental mode (its
// tactic pipeline decides the floating-point and interval-arithmetic queries
// the incremental core times out on); the process stays alive.
func (s *Solver) runText(text string, large bool) Result {
	return s.runTextT(text, large, s.TimeoutMs)
}

func (s *Solver) runTextT(text string, large bool, timeoutMs int) Result {
	var sb strings.Builder
	if s.bin != "cvc5" && !large {
		fmt.Fprintf(&sb, "(set-option :timeout %d)\n", timeoutMs)
	}
	if s.bin == "cvc5" || !large {
		if s.dirty {
			sb.WriteString("(reset)\n")
			fmt.Fprintf(&sb, "(set-option :timeout %d)\n(set-option :produce-models true)\n", s.TimeoutMs)
			s.dirty = false
			s.frameOpen = false
		}
		if s.frameOpen {
			sb.WriteString("(pop 1)\n")
		}
		sb.WriteString("(push 1)\n")
		s.frameOpen = true
	} else {
		s.dirty = true
		sb.WriteString("(reset)\n")
		fmt.Fprintf(&sb, "(set-option :timeout %d)\n(set-option :produce-models true)\n", s.TimeoutMs)
		s.frameOpen = false
	}
	sb.WriteString(text)
	s.send(sb.String())
	return s.readResult()
}

// portfolio runs the query on both processes and takes the first definitive
// verdict; the loser is killed and restarted.
func (s *Solver) portfolio(text string) Result {
	type ans struct {
		res Result
		who *Solver
	}
	ch := make(chan ans, 2)
	go func() { ch <- ans{s.runText(text, true), s} }()
	go func() { ch <- ans{s.alt.runText(text, true), s.alt} }()
	first := <-ch
	if first.res == Unknown {
		second := <-ch
		s.last = second.who
		if second.res != Unknown {
			if second.who == s {
				s.PortWins[0]++
			} else {
				s.PortWins[1]++
			}
		}
		return second.res
	}
	loser := s.alt
	if first.who == s.alt {
		loser = s
		s.PortWins[1]++
	} else {
		s.PortWins[0]++
	}
	s.last = first.who
	// stop the loser: kill the process (its reader returns Unknown), then restart
	select {
	case <-ch:
		// finished in the meantime
	default:
		if loser.cmd != nil && loser.cmd.Process != nil {
			loser.cmd.Process.Kill()
		}
		<-ch
		loser.restart()
	}
	return first.res
}

func (s *Solver) readResult() Result {
	for {
		line, err := s.out.ReadString('\n')
		if err != nil {
			s.LastErr = "solver died: " + err.Error()
			return Unknown
		}
		line = strings.TrimSpace(line)
		switch {
		case line == "sat":
			return Sat
		case line == "unsat":
			return Unsat
		case line == "unknown" || line == "timeout":
			return Unknown
		case strings.HasPrefix(line, "(error"):
			s.LastErr = line
			// keep reading until the check-sat answer arrives, then report unknown
			s.drainUntilAnswer()
			return Unknown
		}
	}
}

func (s *Solver) drainUntilAnswer() {
	for {
		line, err := s.out.ReadString('\n')
		if err != nil {
			return
		}
		line = strings.TrimSpace(line)
		if line == "sat" || line == "unsat" || line == "unknown" {
			return
		}
	}
}

// Values evaluates terms in the model of the last Sat answer. Terms must only
// mention symbols that were part of the last query (others are declared on the
// fly inside the open frame is not possible after check-sat in all solvers, so
// unknown variables get value 0 and are reported in the second result).
func (s *Solver) Values(ctx *Ctx, terms []*Term) (map[int]uint64, error) {
	if s.last != nil && s.last != s {
		return s.last.Values(ctx, terms)
	}
	res := map[int]uint64{}
	if len(terms) == 0 {
		return res, nil
	}
	var todo []*Term
	for _, t := range terms {
		if t.IsConst() {
			res[t.ID] = t.Val
		} else {
			todo = append(todo, t)
		}
	}
	if len(todo) == 0 {
		return res, nil
	}
	// Render without define-funs (they cannot be added after check-sat safely).
	var render func(t *Term) string
	render = func(t *Term) string {
		switch t.Op {
		case OConst:
			return constString(t)
		case OVar:
			return smtName(t.Name)
		}
		if t.Op == OUF && len(t.Args) == 0 {
			return t.head()
		}
		var b strings.Builder
		b.WriteByte('(')
		b.WriteString(t.head())
		for _, a := range t.Args {
			b.WriteByte(' ')
			b.WriteString(render(a))
		}
		b.WriteByte(')')
		return b.String()
	}
	// one get-value per term keeps parsing trivial
	for _, t := range todo {
		s.send(fmt.Sprintf("(get-value (%s))\n", render(t)))
		txt, err := s.readSexp()
		if err != nil {
			return res, err
		}
		if strings.HasPrefix(txt, "(error") {
			// symbol unknown to the solver (not constrained): any value works
			res[t.ID] = 0
			continue
		}
		v, err := parseValue(txt, t.Sort)
		if err != nil {
			return res, fmt.Errorf("get-value %s: %v (%q)", t, err, txt)
		}
		res[t.ID] = v
	}
	return res, nil
}

// readSexp reads one balanced s-expression from the solver.
func (s *Solver) readSexp() (string, error) {
	var sb strings.Builder
	depth := 0
	started := false
	inBar := false
	for {
		ch, err := s.out.ReadByte()
		if err != nil {
			return "", err
		}
		if !started {
			if ch == '(' {
				started = true
				depth = 1
				sb.WriteByte(ch)
			}
			continue
		}
		sb.WriteByte(ch)
		if ch == '|' {
			inBar = !inBar
		}
		if inBar {
			continue
		}
		if ch == '(' {
			depth++
		} else if ch == ')' {
			depth--
			if depth == 0 {
				return sb.String(), nil
			}
		}
	}
}

// parseValue extracts the value from "((expr value))".
func parseValue(txt string, srt Sort) (uint64, error) {
	txt = strings.TrimSpace(txt)
	// strip outer two parens
	if !strings.HasPrefix(txt, "((") || !strings.HasSuffix(txt, "))") {
		return 0, fmt.Errorf("unexpected shape")
	}
	inner := txt[2 : len(txt)-2]
	// value is the last token/sexp of inner
	inner = strings.TrimSpace(inner)
	var val string
	if strings.HasSuffix(inner, ")") {
		// find matching open paren
		depth := 0
		i := len(inner) - 1
		for ; i >= 0; i-- {
			if inner[i] == ')' {
				depth++
			} else if inner[i] == '(' {
				depth--
				if depth == 0 {
					break
				}
			}
		}
		val = inner[i:]
	} else {
		i := strings.LastIndexAny(inner, " \t\n")
		val = inner[i+1:]
	}
	return parseLiteral(val, srt)
}

func parseLiteral(val string, srt Sort) (uint64, error) {
	val = strings.TrimSpace(val)
	switch {
	case val == "true":
		return 1, nil
	case val == "false":
		return 0, nil
	case strings.HasPrefix(val, "#x"):
		return strconv.ParseUint(val[2:], 16, 64)
	case strings.HasPrefix(val, "#b"):
		return strconv.ParseUint(val[2:], 2, 64)
	case strings.HasPrefix(val, "(_ bv"):
		f := strings.Fields(val[5:])
		return strconv.ParseUint(f[0], 10, 64)
	case strings.HasPrefix(val, "(fp "):
		f := strings.Fields(strings.TrimSuffix(val[4:], ")"))
		if len(f) != 3 {
			return 0, fmt.Errorf("bad fp literal")
		}
		var parts [3]uint64
		var widths [3]int
		for i, p := range f {
			v, err := parseLiteral(p, BV(64))
			if err != nil {
				return 0, err
			}
			parts[i] = v
			if strings.HasPrefix(p, "#x") {
				widths[i] = 4 * (len(p) - 2)
			} else {
				widths[i] = len(p) - 2
			}
		}
		return parts[0]<<uint(widths[1]+widths[2]) | parts[1]<<uint(widths[2]) | parts[2], nil
	case strings.HasPrefix(val, "(_ +zero"), strings.HasPrefix(val, "(_ -zero"),
		strings.HasPrefix(val, "(_ NaN"), strings.HasPrefix(val, "(_ +oo"), strings.HasPrefix(val, "(_ -oo"):
		w := srt.W
		switch {
		case strings.HasPrefix(val, "(_ +zero"):
			return 0, nil
		case strings.HasPrefix(val, "(_ -zero"):
			return uint64(1) << uint(w-1), nil
		case strings.HasPrefix(val, "(_ NaN"):
			return fpToBits(w, nanF()), nil
		case strings.HasPrefix(val, "(_ +oo"):
			return fpToBits(w, infF(1)), nil
		default:
			return fpToBits(w, infF(-1)), nil
		}
	}
	return 0, fmt.Errorf("cannot parse literal %q", val)
}

func nanF() float64 { var z float64; return z / z }
func infF(s int) float64 {
	var z float64
	if s > 0 {
		return 1 / z
	}
	return -1 / z
}

// Script renders a standalone SMT-LIB2 script for the assertions (used for
// cross-checking a verdict on a second solver and for evidence samples).
func Script(ctx *Ctx, assertions []*Term) string {
	var sb strings.Builder
	names := emit(&sb, ctx, assertions)
	ids := make([]int, 0, len(assertions))
	for _, a := range assertions {
		ids = append(ids, a.ID)
	}
	sort.Ints(ids)
	for _, a := range assertions {
		fmt.Fprintf(&sb, "(assert %s)\n", names[a.ID])
	}
	sb.WriteString("(check-sat)\n")
	return sb.String()
}
