#!/bin/bash
# usage: store_seed.sh <worktree> <name>  -- copies patch, demo and agent meta into /verif/seeded/<name>/
WT=$1; NAME=$2
D=/verif/seeded/$NAME
mkdir -p $D
cp $WT/seed_out/patch.diff $D/patch.diff
cp $WT/seed_out/*_test.go $D/ 2>/dev/null
cp $WT/seed_out/meta.json $D/agent_meta.json
ls $D
