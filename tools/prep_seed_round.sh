#!/bin/bash
# prep.sh <round-tag> <focus-file>
TAG=$1; F=$2
mkdir -p /tmp/seed/wt /tmp/seed/prompts
while IFS='|' read -r id focus; do
  [ -z "$id" ] && continue
  wt=/tmp/seed/wt/${id}${TAG}
  git -C /repo worktree add -q --detach $wt HEAD || continue
  python3 - "$id" "$wt" "$focus" <<'PY'
import json,sys
id,wt,focus=sys.argv[1:4]
prop=None
for l in open('/verif/properties.jsonl'):
    p=json.loads(l)
    if p['id']==id: prop=p
t=open('/verif/tools/seed_prompt_template.txt').read()
t=t.replace('__WT__',wt).replace('__PROP__',prop['title']+'. '+prop['statement']).replace('__FOCUS__',focus).replace('__ID__',id)
open('/tmp/seed/prompts/%s.txt'%(wt.split('/')[-1]),'w').write(t)
PY
done < $F
ls /tmp/seed/wt
