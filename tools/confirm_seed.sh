#!/bin/bash
# usage: confirm_seed.sh <worktree> <module-dir-of-demo (gbn|mailbox)> <demo-run-regex> [synctest]
# Confirms: (1) both suites pass with the change and without the demo file,
# (2) the demo fails with the change, (3) the demo passes without the change.
set -u
WT=$1; MOD=$2; RX=$3; SYN=${4:-}
export GOFLAGS=-mod=mod GOPROXY=off
[ -n "$SYN" ] && export GOEXPERIMENT=synctest
cd $WT || exit 2
DEMOS=$(ls $MOD/zz_seed*_test.go 2>/dev/null)
mkdir -p /tmp/seed_aside_$$; for d in $DEMOS; do mv $d /tmp/seed_aside_$$/; done
echo "== suites with the change (demo aside)"
(cd gbn && go test -vet=off -count=1 ./... 2>&1 | tail -1)
(cd mailbox && go test -vet=off -count=1 ./... 2>&1 | tail -1)
for d in $DEMOS; do mv /tmp/seed_aside_$$/$(basename $d) $d; done
echo "== demo with the change (must FAIL)"
(cd $MOD && go test -vet=off -count=1 -run "$RX" . 2>&1 | tail -3)
echo "== demo without the change (must PASS)"
git apply -R seed_out/patch.diff && (cd $MOD && go test -vet=off -count=1 -run "$RX" . 2>&1 | tail -1); git apply seed_out/patch.diff
git status --short | head -5
