#!/bin/bash
# usage: try_seed.sh <worktree> <property-id> [extra property ids...]
# Confirms an agent's seeded change (tools/confirm_seed.sh, module/regex/synctest from
# seed_out/meta.json), then runs the quick check(s) against the worktree with the
# demonstration file moved aside. Output: /tmp/seed/results/<basename>.txt
WT=$1; shift
B=$(basename $WT)
mkdir -p /tmp/seed/results
OUT=/tmp/seed/results/$B.txt
MOD=$(python3 -c "import json;print(json.load(open('$WT/seed_out/meta.json')).get('demo_module','gbn'))")
SYN=$(python3 -c "import json;print('synctest' if json.load(open('$WT/seed_out/meta.json')).get('needs_synctest') else '')")
{
echo "### $B  module=$MOD synctest=$SYN"
(cd $WT && git status --short | head -8)
/verif/tools/confirm_seed.sh $WT $MOD 'TestSeedDemo' $SYN 2>&1 | grep -v "conda"
mkdir -p /tmp/seed/aside_$B; mv $WT/gbn/zz_seed*_test.go $WT/mailbox/zz_seed*_test.go /tmp/seed/aside_$B/ 2>/dev/null
for id in "$@"; do
  echo "== check $id against the worktree"
  VERIF_REPO=$WT timeout 3000 /verif/bin/gosym check $id --tier quick 2>&1 | grep -v conda | grep "^VIOLATION\|^KNOWN\|^OK\|^FAIL\|INCONCLUSIVE\|violations=[1-9]\|unsupported=[1-9]\|inconclusive=[1-9]\|MISMATCH\|cannot run" | cut -c1-400 | awk '!seen[$0]++' | head -20
  echo "rc=${PIPESTATUS[0]}"
done
} > $OUT 2>&1
echo done $B
