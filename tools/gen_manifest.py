#!/usr/bin/env python3
"""Generates /verif/MANIFEST.json from the table below (kept next to the engine's props.go)."""
import json

CLAIMS = {
 "C01": ("inductive one-step obligations O1-O6 on the real receive loop and queue from an arbitrary symbolic pre-state (all window sizes 1..254, channel invariant of DESIGN Appendix C) plus bounded whole-endpoint symbolic runs (real client+server, virtual clock, symbolic per-packet fates)",
         "channel invariant (Appendix C) is the trusted model of the transport; whole-endpoint runs bounded by window<=3, messages<=3, faults<=4 (fates deliver/drop/duplicate, in the wide runs also an 8 s in-order delay, fault window after 0..3 untouched packets), schedule deviations<=1",
         "solver-based inductive step + bounded symbolic execution of go/ssa with symbolic fault schedule (z3)"),
 "C02": ("inductive step under the ideal-AEAD model: the reader in lock-step is fed every relay edit script of up to 2 segments (symbolic offsets/lengths, flips, junk, reflection); one ReadMessage returns exactly the expected record or an error; lock-step step closes the induction",
         "ideal AEAD/HKDF (DESIGN 4.6); adversary = edit scripts over honest streams; the inductive step stops at the first error, a separate three-record scenario (one wire segment corrupted / dropped / doubled) reads on after errors; a read deadline expiring at every byte position of a record, the rest intact or altered, then reading on",
         "solver-based symbolic execution with idealised crypto; quantifier-free encoding of whole-ciphertext equality over functional byte arrays"),
 "C03": ("real DoHandshake of both parties executed symbolically against each other with arbitrary passphrases / expected keys under the ideal-crypto model: mismatch => responder writes 0 bytes, nobody derives keys",
         "ideal cryptography (DESIGN 4.6) incl. an abstract group model under which the real SPAKE2 masking code (ekeMask/ekeUnmask) is executed; repeated attempts in one process; adversary who knows a key is outside",
         "solver-based symbolic execution of the two-party handshake (goroutine layer) with ideal primitives"),
 "C04": ("two-party handshake, all version ranges, both patterns, payload lengths around the v0 frame limit, active MITM on version bytes (all values 0..3 on all acts) and single-byte flips: both completing => agreement on keys, version, identities, payload and rendezvous switch; pairing handshake followed by the repeat handshake on the same ConnData (payload slices with spare capacity, AEAD destination aliasing modelled)",
         "ideal cryptography (DESIGN 4.6); one known finding (version bytes not in the transcript) is reported as KNOWN-FINDING, any other divergence is a violation",
         "solver-based symbolic execution with symbolic MITM substitutions"),
 "C05": ("composite symbolic run of the whole stack minus gRPC (real mailbox Server/Client, retry loops, two GBN connections, Noise handshake and record layer with ideal primitives) over an in-memory relay with symbolic stream failures and drops, plus the symbolic-length framing steps; provenance check that no relay message depends on plaintext or the auth payload",
         "relay = in-memory FIFO mailboxes behind the HashMailClient interface; composite writes are 1..3 bytes, large sizes only through the inductive framing steps (C15) and C14/C19; relay faults<=4; default schedule; a straggling Read/Write of an earlier transport on the shared NoiseGrpcConn after a re-handshake that timed out (no crash, no clear text)",
         "bounded symbolic execution of the composed endpoints (goroutine layer, virtual time, ideal crypto) with symbolic relay fault schedule"),
 "C06": ("bounded whole-endpoint symbolic runs on the virtual clock with a finite symbolic fault prefix, then reliable transport: delivery within the horizon, no closure, no retransmission after full acknowledgement; dedicated tail-loss-under-peer-traffic, acknowledgement-loss and post-resend-synchronisation (slow writes vs. ACK/NACK events at symbolic instants) scenarios",
         "bounds: window<=2, messages<=3, faults<=3 per direction, default schedule (+1 deviation thorough), horizon 600 virtual seconds",
         "bounded symbolic execution of both endpoints with discrete-event virtual time and symbolic fault schedule"),
 "C07": ("every run-time check (index, slice, division, nil, make) of the decoders, the live receive loop, the server handshake, Noise act parsing, record reading and control-message framing is an SMT query over symbolic input bytes; unsat = no panic within the length bounds",
         "regexp/protojson websocket envelope not encodable (outside the claim); Noise primitives idealised; authenticated length fields of act two are additionally explored as chosen by a key-holding hostile party; a straggling Read/Write on the shared credentials object after a failed re-handshake (nil-cipher dereference, D19)",
         "solver-based bounded symbolic execution of go/ssa (z3)"),
 "C08": ("inductive lock-step step of cipherState (symbolic key/salt/nonce incl. rotation boundary), frame condition between directions, syntactic provenance of wire bytes, concrete 1100-2500 record run across rotations",
         "ideal AEAD/HKDF; HKDF freshness assumed; key/nonce pairs across a failed write followed by further writes (every Seal call of the run logged)",
         "solver-based inductive step with ideal primitives + syntactic information-flow check on symbolic terms"),
 "C09": ("inductive window invariant on the real queue code for all window sizes and all 256 ACK/NACK values in single queries; negotiated window from every SYN value",
         "window invariant stated in harness/gbn/c09.go; blocking behaviour: whole-connection runs with withheld answers for n in {1,2,3,20}, keep-alive off and on (default schedule); server window after scripted handshakes incl. restart paths; post-resend wait ends on NACK(top)",
         "solver-based inductive step over symbolic pre-state (z3 bit-vectors)"),
 "C10": ("real client and server constructors run against each other on the virtual clock with symbolic fates for the first handshake packets of each direction, stale packets with symbolic bytes, three start orders and four window sizes, followed by a request/reply exchange: no crash, no silent hang, no foreign window, fault-free attempts succeed",
         "bounds: faults<=3 per direction, <=2 stale packets of <=3 symbolic bytes, horizon 120 virtual s; a stray duplicate that tears the fresh connection down visibly is accepted (the statement's 'fails with an error' branch); a 1.5 s in-order delay fate with a foreign-window SYN queued ahead and 12 server messages (parties never both alive with different windows)",
         "bounded symbolic execution of both endpoints (goroutine layer, discrete-event virtual time, symbolic fault schedule)"),
 "C11": ("real Server.Accept/Client.Dial over the in-memory relay: a second Accept/Dial does not return while the first connection is open, returns a fresh working connection after close, both parties move to the same key-derived rendezvous and use the key-based pattern; unpaired client refused",
         "one reconnect cycle per run, relay faults<=2, default schedule; ideal cryptography; in-memory relay model; since round 10: two reconnect cycles, and a truncated frame as the k-th delivery at the new rendezvous or in the refresh cycle (failed Accept/Dial called again)",
         "bounded symbolic execution of the composed endpoints with ideal crypto"),
 "C12": ("Close injected at several instants of virtual time by either/both sides, once or twice, with blocked Send/Recv, healthy or silent transport, keep-alive on/off: bounded return, failing calls, peer notification, and an empty set of goroutines and tickers at quiescence",
         "bounds: window<=2, 5 close instants, default schedule (+1 deviation and one symbolic packet fate in thorough); Close inside a retransmission with a one-way outage (FIN must still reach the peer, no ticker left running); mailbox connection with stalled relay streams; transport writes that block until their context is cancelled, Close with a retransmission stuck in the write (client or server)",
         "bounded symbolic execution with engine-owned scheduler; leak check on the engine's goroutine/timer tables"),
 "C13": ("keep-alive runs on the virtual clock: transport silenced at symbolic idle offsets with 0..N+1 queued messages must close within ping+pong+slack; a healthy idle pair with latency below the pong timeout survives 10 virtual minutes",
         "four ping/pong settings, window<=3, default schedule; slack 20 s for boosted resend-sync waits; answer latency chosen per keep-alive cycle (2%, 34%, 99.7% of the pong timeout) for the first 3-4 cycles; stream writes that return only after the answer is back",
         "bounded symbolic execution with discrete-event virtual time"),
 "C14": ("all (length, chunk size) pairs up to the bound with symbolic contents, sequences of two messages, deadlines expiring at every chunk boundary on the virtual clock",
         "payload<=9, chunk<=10 (thorough), symbolic lengths up to 4 MiB and chunk sizes up to MaxInt in the large/huge harnesses; expired (zero/negative) receive timeouts with both select outcomes; one known finding (Send timing out mid-message) reported as KNOWN-FINDING; receive deadline cleared or changed while a message is half received",
         "solver-based bounded symbolic execution (case split on lengths, symbolic contents)"),
 "C15": ("inductive Read step for NoiseGrpcConn, NoiseConn and connKit from an arbitrary carry-over state with a real record of symbolic length and a symbolic buffer size; writes of symbolic length; zero-length records",
         "ideal AEAD (destination aliasing modelled); carry-over invariant in harness/mailbox/c15.go; read buffers are windows of larger allocations and are overwritten after Read; writes across a transport timeout on NoiseGrpcConn (quick) and NoiseConn (thorough only: 1-2 min of solver time); stream contents compared at symbolic witness indices",
         "solver-based inductive step over functional (symbolic-length) byte arrays"),
 "C16": ("Flush with every split of a symbolic-length record into up to 4 partial writes; real two-party handshake and record reads over fragmenting streams",
         "fragment sizes in the handshake are case-split over {1,7,len-1} (plus all-1-byte and all-7-byte delivery), not every size",
         "solver-based symbolic execution with symbolic partial-write schedule"),
 "C17": ("mnemonic codec on a fully symbolic 112-bit entropy and on 10 symbolic word indices (single path each through guarded if-conversion), direction bits for an arbitrary id, SID derivation under ideal hashes/ECDH",
         "inverse word-table lemma checked concretely per run; ideal SHA-512/HMAC/ECDH",
         "solver-based symbolic execution with guarded if-conversion (bit-vector validity queries)"),
 "C18": ("race mode: pairs of operations on ticker, timeout manager and queue from two goroutines under all schedules within 2 deviations, plus a live keep-alive pair with four application goroutines; vector-clock happens-before detection, channel-misuse panics, deadlocks",
         "per-channel vector clocks over-approximate happens-before (missed races possible, no false races); sequentially consistent memory; <=2 schedule deviations; two callers of Send/Recv at once, both timeout setters at once (no lost update), the real receive loop against the setters, a packet arriving at the pong expiry",
         "bounded schedule exploration in the symbolic engine with happens-before race detection"),
 "C19": ("round trip and canonical re-encoding of all six GBN packet types and MsgData with all field values symbolic and payloads up to 64 symbolic bytes",
         "payload length bound 8 quick / 64 thorough",
         "solver-based bounded symbolic execution (z3)"),
 "C20": ("inductive step of the TimeoutManager from an arbitrary valid state under a symbolic clock for every event type; float32 boost arithmetic decided as SMT FloatingPoint",
         "state invariant in harness/gbn/c20.go; durations<=2^40 ns, boost count<=1024; two- and three-event scenarios for fresh samples, duplicate ACKs, back-to-back retransmissions; server handshake scripts for samples after a resent SYN",
         "solver-based inductive step incl. floating-point theory (z3)"),
}

NOT_YET = {}

def main():
    import sys
    na = json.load(open('/verif/tools/not_applicable.json'))
    checks = []
    for pid in sorted(CLAIMS):
        text, note, tech = CLAIMS[pid]
        checks.append({
            "property_id": pid,
            "quick_cmd": f"/verif/bin/gosym check {pid} --tier quick",
            "thorough_cmd": f"/verif/bin/gosym check {pid} --tier thorough",
            "evidence_file": f"/verif/evidence/{pid}.json",
            "replay_cmd_template": "/verif/bin/gosym replay {path}",
            "engine": "gosym",
            "level_claimed": {"category": "model_checking", "text": text, "design_ref": f"DESIGN.md section 6 {pid}"},
            "level_note": note + "; go/ssa semantics as implemented by the engine, every counterexample replayed natively before it is reported; exact bounds, stubs and assumptions in the evidence file",
            "technique": tech,
        })
    man = {
        "version": 1,
        "setup_cmd": "cd /verif/engine && GOFLAGS=-mod=mod GOPROXY=off go build -o /verif/bin/gosym ./cmd/gosym",
        "hooks": {
            "guard": "verif",
            "enable": "no source hooks in /repo: harness files carry //go:build verif and are injected by go/packages Overlay (engine) or `go test -tags verif -overlay` (native replay)",
            "baseline_off_cmd": "for m in gbn mailbox; do (cd /repo/$m && GOFLAGS=-mod=mod go test -json -vet=off -count=1 -timeout 25m ./...); done",
            "source_commits": [],
            "add_only": True,
        },
        "engines": [{"name": "gosym", "path": "/verif/engine", "serves_properties": sorted(CLAIMS),
                     "kind_free_text": "own symbolic executor for go/ssa (goroutines, channels, virtual time, ideal crypto) with SMT-LIB2 back end: z3 4.8.12 and z3 5.1.0 as a portfolio, cvc5 1.0 as cross-check in the thorough tier"}],
        "checks": checks,
        "not_applicable": [{"property_id": k, "reason": v} for k, v in sorted(na.items()) if k not in CLAIMS],
        "notes": "exit 0 = held within the stated bounds; exit 1 + VIOLATION line = counterexample reproduced natively; exit 2 = inconclusive (solver unknown, unsupported construct, vacuity guard) - never reported as a pass. Known findings: /verif/known_findings.txt.",
    }
    json.dump(man, open('/verif/MANIFEST.json', 'w'), indent=1)
    print("claimed:", len(checks), "not applicable:", len(man["not_applicable"]))

main()
