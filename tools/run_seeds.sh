#!/bin/bash
# usage: run_seeds.sh [seed-dir-name ...]   (default: all under /verif/seeded)
# For each seeded change: scratch worktree of /repo under /tmp/seedrun, apply the
# patch, run the quick check of its property against it (VERIF_REPO), expect a
# VIOLATION line, remove the worktree. Prints one line per seed.
set -u
cd /verif/seeded || exit 2
SEEDS=${@:-$(ls -d */ | tr -d /)}
mkdir -p /tmp/seedrun
rc=0
for s in $SEEDS; do
  id=${s:0:3}
  wt=/tmp/seedrun/$s
  git -C /repo worktree add -q --detach $wt HEAD 2>/dev/null || { echo "$s: worktree failed"; rc=1; continue; }
  if ! git -C $wt apply /verif/seeded/$s/patch.diff; then echo "$s: patch does not apply"; rc=1; git -C /repo worktree remove --force $wt; continue; fi
  out=$(VERIF_REPO=$wt timeout 3600 /verif/bin/gosym check $id 2>&1)
  if echo "$out" | grep -q "^VIOLATION property=$id"; then
    echo "$s: VIOLATION ($(echo "$out" | grep -c '^VIOLATION') lines)"
  else
    echo "$s: MISSED: $(echo "$out" | tail -2 | tr '\n' ' ' | cut -c1-300)"; rc=1
  fi
  git -C /repo worktree remove --force $wt
done
git -C /repo worktree prune
exit $rc
