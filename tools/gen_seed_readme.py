#!/usr/bin/env python3
"""Regenerates /verif/seeded/README.md from the meta.json files."""
import json, os
root = os.path.join(os.path.dirname(os.path.abspath(__file__)), "..", "seeded")
rows = []
for d in sorted(os.listdir(root)):
    mp = os.path.join(root, d, "meta.json")
    if not os.path.isfile(mp):
        continue
    m = json.load(open(mp))
    det = "; ".join(f"{k}: {v.split(' (')[0] if v.startswith('VIOLATION') else v}" for k, v in m["detected_by"].items())
    rows.append((d, m["property"], m["needs"], det))
out = ["# Seeded changes", "",
       "Each directory: `patch.diff` (the change), the agent's demonstration test, `agent_meta.json` (the agent's own notes) and `meta.json` (what it breaks, what it needs, what I ran, which check reports what).",
       "None of these is ever committed to /repo. Regenerate this file with `python3 tools/gen_seed_readme.py`.", "",
       "| seed | property | needs | caught by |", "|---|---|---|---|"]
for r in rows:
    out.append("| " + " | ".join(x.replace("|", "/") for x in r) + " |")
open(os.path.join(root, "README.md"), "w").write("\n".join(out) + "\n")
print(len(rows), "seeds")
